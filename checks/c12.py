"""C12 — after any reorg the pool agrees with the new chain: no stale, dead or lost transactions.

1. TLC exhaustively checks MC_PoolReorg (TxPool.tla + the chain service publishing reorg notifications that the pool
   processes later, interleaved with submissions resolved against the pool's lagging view): NoCommitted,
   NoDeadOrUnknown, NoDetachedHeaderDep, DetachedReadmitted, StageMatchesWindow, Synced.  Self-test: six mutants of
   the processing order (conflicts kept, header-dep conflicts kept, re-add before removal, no re-add, orphans kept =
   as coded, gap never demoted = as coded) must each violate a post-condition.
2. T: reorg-heavy random histories on a real node with a block assembler and on one without (harness c12): side
   branches that are empty / propose and commit conflicting transactions / detach header-dep targets, submissions
   from a second thread while the branch is delivered.  Compared only after quiesce + wait_pool_synced.  Each
   history is validated by Trace_TxPool.tla: the contents step must satisfy the operation's relation and the C12
   post-conditions are evaluated by TLC on the pool the implementation reports.  Histories contain no expiry.
"""
import concurrent.futures as cf
import json
import os
import re
import threading

import vcheck as V
import c11 as C11

PID = "C12"
ACTIONS = ["Submit", "NodeAttach", "NodeReorg", "PoolProcess"]
INVARIANTS = ["NoAnomaly", "NoDoubleSpend", "NoCommitted", "NoDeadOrUnknown", "NoDetachedHeaderDep", "DetachedReadmitted",
              "StageMatchesWindow"]
MUTANTS = {"keep_conflicts": None, "keep_header_deps": "NoDetachedHeaderDep", "readd_first": None, "no_readd": "DetachedReadmitted",
           "keep_orphans": "NoDeadOrUnknown", "gap_sticky": "StageMatchesWindow"}
_LOCK = threading.Lock()


def signature(u, prev, ev, violated, conf, frag=None):
    kind = ev["ev"]
    if violated is None:
        if kind == "Reorg" and ev["detach"] > 0 and ev.get("recovered") and frag is not None:
            # a transaction that another thread submitted while the notification was outstanding spends an output of a
            # detached transaction that did not come back: the same orphan as below, it merely arrived concurrently
            chain = []
            for e in frag[:-1]:
                if e["ev"] == "Reorg":
                    chain = chain[:len(chain) - e["detach"]] + e["attach"]
            detached = {t for b in chain[len(chain) - ev["detach"]:] for t in b["commits"]}
            committed = {t for b in chain[:len(chain) - ev["detach"]] + ev["attach"] for t in b["commits"]}
            pool_now = set(ev["st"].keys())
            missing = {o[0] for t in ev["recovered"] for o in u[t]["ins"] + u[t]["deps"]
                       if o[0] != "g" and o[0] not in pool_now and o[0] not in committed}
            if missing and all(m in detached - committed for m in missing):
                return "unknown-input/child-of-unreadmitted-detached-tx"
        return "not-a-behaviour/%s" % kind
    if violated == "NoAnomaly":
        return "anomaly/%s/%s" % (kind, ev["bad"][0].split(":")[0])
    pool = set(ev["st"].keys())
    before = set(prev["st"].keys()) if prev and "st" in prev else set()
    if violated == "StageMatchesWindow":
        # which entries, which stage
        if kind == "Reorg" and ev["detach"] > 0:
            stuck = [t for t in pool & before if ev["st"][t] == "gap" and prev["st"].get(t) == "gap"]
            if stuck:
                return "stage-mismatch/gap-after-detach"
        return "stage-mismatch/%s" % kind
    if violated == "NoDeadOrUnknown":
        if kind == "Reorg" and ev["detach"] > 0 and frag is not None:
            # replay the chain of the history to know what the detached blocks had committed
            chain = []
            for e in frag[:-1]:
                if e["ev"] == "Reorg":
                    chain = chain[:len(chain) - e["detach"]] + e["attach"]
            detached = {t for b in chain[len(chain) - ev["detach"]:] for t in b["commits"]}
            newchain = chain[:len(chain) - ev["detach"]] + ev["attach"]
            committed = {t for b in newchain for t in b["commits"]}
            orphans = [t for t in pool for o in u[t]["ins"] + u[t]["deps"]
                       if o[0] != "g" and o[0] not in pool and o[0] not in committed]
            missing = {o[0] for t in pool for o in u[t]["ins"] + u[t]["deps"]
                       if o[0] != "g" and o[0] not in pool and o[0] not in committed}
            # every missing creator is a transaction of the abandoned branch that did not come back, or a pooled
            # descendant that left with it
            if orphans and all(m in detached - committed for m in missing):
                return "unknown-input/child-of-unreadmitted-detached-tx"
        return "unknown-input/%s" % kind
    return "%s/%s" % (violated, kind)


def validate(c, tag, doc, meta):
    wd = V.workdir(PID, "traces")
    path = os.path.join(wd, tag + ".ndjson")
    cfg = os.path.join(wd, tag + ".cfg")
    C11.trace_cfg(cfg, INVARIANTS)
    events = doc["events"]
    C11.write_trace(path, doc["universe"], doc["genesis"], [events])
    ok, res = V.validate_trace(PID, "Trace_TxPool", cfg, path, tag="tr_" + tag, timeout=900)
    if ok:
        return True, len(events), None
    m = re.search(r'<<\s*"TRACE-REJECTED",\s*(\d+),', res["out"])
    if m:
        d = int(m.group(1))
    elif res["violated"] and res["generated"]:
        d = res["generated"]
    else:
        V.log(res["out"][-3000:])
        raise V.ToolError("trace validation of %s ended without a verdict" % tag)
    at = d - 1 if res["violated"] else d
    idx = max(0, min(at - 2, len(events) - 1))
    frag = events[:idx + 1]
    prev = frag[-2] if len(frag) >= 2 else None
    key = signature(doc["universe"], prev, frag[-1], res["violated"], frag[0].get("conf", {}), frag)
    with _LOCK:
        c.violation(key, "history %s: event %d (%s) %s" % (tag, idx + 1, frag[-1]["ev"],
                    ("violates " + res["violated"]) if res["violated"] else "is not a step TxPool.tla allows"),
                    {"kind": "trace", "universe": doc["universe"], "genesis": doc["genesis"], "events": frag, "meta": meta,
                     "violated": res["violated"], "tlc_tail": res["out"][-1200:]})
    return False, idx, key


def run_random(seed, steps, profile, n):
    wd = V.workdir(PID, "hist")
    out = os.path.join(wd, "random_%d.json" % n)
    args = ["random", "--seed", seed, "--steps", steps, "--profile", profile, "--out", out]
    rc, o = V.ckbv("c12", args, timeout=1500)
    if rc == 3 and "WATCHDOG" in o:
        # see c13.py: a hang that repeats at the same stage of the same seeded history is data, not tool trouble
        st1 = re.findall(r"WATCHDOG: no progress for \d+s at stage '([^']*)'", o)
        rc, o = V.ckbv("c12", args, timeout=1500)
        st2 = re.findall(r"WATCHDOG: no progress for \d+s at stage '([^']*)'", o)
        if rc == 3 and st1 and st1 == st2:
            return {"hang": {"seed": seed, "steps": steps, "profile": profile, "stage": st1[-1]}}
    if rc != 0 or not os.path.exists(out):
        V.log(o[-3000:])
        raise V.ToolError("c12 random failed rc=%d" % rc)
    return json.loads(open(out).readline())


def phase_mc(c, tier):
    # window (1,2): a commit can be detached within 3-4 blocks; window (2,3): proposals pass through the gap
    # thorough: chains of 4 blocks with one outstanding notification for window (1,2) (1.1 M states), plus both quick models
    cfgs = ["MC_PoolReorg_quick.cfg", "MC_PoolReorg_quickgap.cfg"] + ([] if tier == "quick" else ["MC_PoolReorg_full.cfg"])
    # at most 4 TLC workers at any time: one model after the other
    ress = [V.tlc(PID, "MC_PoolReorg", g, workers=4, timeout=1700, xmx="8g", coverage=(g != "MC_PoolReorg_full.cfg")) for g in cfgs]
    for cfg, res in zip(cfgs, ress):
        if res["violated"]:
            c.violation("model/" + res["violated"], "MC_PoolReorg violates %s in %s" % (res["violated"], cfg),
                        {"kind": "model", "cfg": cfg, "tlc_tail": res["out"][-3000:]})
        if res["coverage"]:
            V.require_coverage(res, ACTIONS, cfg)
        c.add_tlc(res, cfg)
    c.set("exhaustive", True)
    muts = list(MUTANTS) if tier == "thorough" else ["keep_orphans", "gap_sticky", "keep_conflicts"]
    caught = {}
    with cf.ThreadPoolExecutor(max_workers=2) as ex:
        rs = list(ex.map(lambda m: V.tlc(PID, "MC_PoolReorg", "MC_PoolReorg_mut_%s.cfg" % m, workers=2, timeout=1200, coverage=False), muts))
    for m, r in zip(muts, rs):
        if not r["violated"] or (MUTANTS[m] and r["violated"] != MUTANTS[m]):
            raise V.ToolError("oracle self-test failed: mutant %s -> %s" % (m, r["violated"]))
        caught[m] = r["violated"]
    c.set("selftest_mutants_rejected_by", caught)


def run_growth_node(c, tier):
    """Spec growth beyond the listed properties (DESIGN.md 3.7 (1)): Node.tla, the composition of ChainState, ProposalWindow,
    TxPool / Template and MMR with the cross-module invariants, bound to one real node by whole-node histories over real
    process restarts (checks/g_node.py, harness g_node).  Numbers land in coverage["growth_node"]."""
    import g_node
    g_node.run_growth_node(c, tier)


def run(tier):
    c = V.Check(PID, "model_checking", tier)
    c.rule = ("cases = reorg-heavy histories executed on a real node and validated event by event (contents relation + C12 "
              "post-conditions on the dumped pool); non-trivial = the history contains a reorg that detaches a block whose "
              "transactions or proposals matter to the pool")
    c.assumptions = [
        "the pool is compared only after ChainController quiesced and TxPoolInfo.tip_hash equals the chain tip (its own 'processed' condition)",
        "histories contain no expiry (the clock never passes expiry_hours)",
        "Admissible = resolves against the new chain plus the pool, within max_ancestors_count; fees are above min_fee_rate and the size limit is not reached by construction",
        "transactions entering through another thread during a reorg are accepted as plain submissions in the step in which they first show up",
    ]
    V.build_harness("c12")
    nh, steps = (12, 60) if tier == "quick" else (48, 120)
    gex = cf.ThreadPoolExecutor(max_workers=1)                   # growth (Node.tla composition): next to the other phases
    gfut = gex.submit(run_growth_node, c, tier)
    with cf.ThreadPoolExecutor(max_workers=1) as bg:
        fut = bg.submit(phase_mc, c, tier)
        seeds = [(V.seed() * 1000 + i, steps, i) for i in range(nh)]
        with cf.ThreadPoolExecutor(max_workers=8) as ex:
            docs = list(ex.map(lambda a: run_random(a[0], a[1], a[2], a[2]), seeds))
        for d in [x for x in docs if "hang" in x]:
            h = d["hang"]
            c.violation("hang/%s" % re.sub(r"[^a-z]+", "-", h["stage"].lower()).strip("-"),
                        "history seed %s profile %s: the node under test stopped responding (no progress for 180 s, twice, at stage '%s')" % (
                            h["seed"], h["profile"], h["stage"]), {"kind": "hang", "args": h})
        docs = [x for x in docs if "hang" not in x]
        tot = {k: 0 for k in ("events", "txs", "accepted", "rejected", "blocks", "reorgs", "detached_blocks", "concurrent_submits",
                              "side_branches_with_commits", "directed_reorgs")}
        stops = []
        for d in docs:
            for k in tot:
                tot[k] += d["summary"][k]
            if d["summary"]["error"]:
                stops.append(d["summary"]["error"])
        stats = {"events": 0, "truncated": 0}
        with cf.ThreadPoolExecutor(max_workers=8) as ex:
            for (ok, nev, key), d in zip(ex.map(lambda x: validate(c, "random_%d" % x[0], x[1], {"source": "random", "args": x[1]["summary"]}),
                                                list(enumerate(docs))), docs):
                stats["events"] += nev
                if not ok:
                    stats["truncated"] += 1
        for d in docs:
            evs = d["events"]
            c.case({"random": d["summary"]["seed"], "profile": d["summary"]["profile"], "n": len(evs)},
                   any(e["ev"] == "Reorg" and e["detach"] > 0 for e in evs))
        fut.result()
    c.add("traces_validated_against_impl", len(docs))
    readded = sum(1 for d in docs for i, e in enumerate(d["events"])
                  if e["ev"] == "Reorg" and e["detach"] > 0 and i > 0 and set(e["st"]) - set(d["events"][i - 1].get("st", {})))
    tot.update({"histories": len(docs), "mine_mode": sum(1 for d in docs if d["summary"]["mine"]),
                "events_validated": stats["events"], "truncated_by_violation": stats["truncated"],
                "reorgs_that_readded": readded,
                "recovered_or_concurrent_entries": sum(len(e.get("recovered", [])) for d in docs for e in d["events"]),
                "histories_ended_by_async_replacement": sum(1 for d in docs if d.get("stopped")), "fixture_stops": stops[:5],
                "dep_group_users_pooled_with_member_creator": sum(d["summary"].get("dep_groups", [0, 0, 0, 0])[2] for d in docs)})
    c.set("random_histories", tot)
    if stops and not c.violations:
        raise V.ToolError("histories ended by a fixture error (never on the unchanged tree): %s" % stops[:3])
    if tot["reorgs"] < nh or readded == 0 or tot["side_branches_with_commits"] == 0 or tot["mine_mode"] in (0, len(docs)):
        raise V.ToolError("vacuous run: %s" % tot)
    c.sample({"history_prefix": [{k: e[k] for k in e if k in ("ev", "t", "ok", "detach", "attach", "st", "recovered")} for e in docs[0]["events"][:7]]})
    gfut.result()
    gex.shutdown()
    return c.finish()


def replay(path, tier):
    c = V.Check(PID, "model_checking", tier)
    r = json.load(open(path))
    p = r["payload"]
    if p["kind"].startswith("growth_node"):
        import g_node
        g_node.replay(c, p, tier)
        return 1 if c.violations else 0
    if p["kind"] == "model":
        res = V.tlc(PID, "MC_PoolReorg", p["cfg"], workers=8)
        if res["violated"]:
            c.violation("model/" + res["violated"], "model violation", p)
        return 1 if c.violations else 0
    if p["kind"] == "hang":
        a = p["args"]
        V.build_harness("c12")
        d = run_random(a["seed"], a["steps"], a["profile"], 9999)
        if "hang" in d:
            c.violation("hang/replayed", "the node under test stops responding again at stage '%s'" % d["hang"]["stage"], p)
        return 1 if c.violations else 0
    validate(c, "replayed", {"universe": p["universe"], "genesis": p["genesis"], "events": p["events"]}, p.get("meta"))
    m = p.get("meta") or {}
    if m.get("source") == "random":
        a = m["args"]
        V.build_harness("c12")
        d = run_random(a["seed"], a["steps"], a["profile"], 9999)
        validate(c, "rerun", d, m)
    return 1 if c.violations else 0
