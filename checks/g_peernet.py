"""Growth item "PeerNet": spec/PeerNet.tla (the node's view of its peers: PeerRegistry admission / limits / inbound eviction,
PeerStore connected peers + anchors, BanList, AddrManager with the four fetch rules and the purge of a full book, the
dump/load round trip, the operator's ban interface) and its binding to the REAL code (harness g_peernet: real PeerRegistry +
PeerStore objects through the cfg(ckb_verif) wrappers of /repo 5d138a9; a started NetworkService's NetworkController for
ban / unban / clear / get_banned_addrs; a PeerStore filled to ADDR_COUNT_LIMIT for the purge).

Attached to checks/c17.py (bookkeeping structures that must behave like their simple mathematical models); evidence under
coverage["growth_peernet"]; violations are reported under C17 with keys growth-peernet/...
"""
import collections
import json
import os
import re

import vcheck as V

PID = "C17"
INVS = ["OneSessionPerPeer", "WithinLimits", "WhitelistOnlyHolds", "WhitelistFlagRight", "RegistryInStore", "AnchorsAreBR",
        "NoStaleConnected", "BanExact"]


def _wd(fresh=False):
    return V.workdir(PID, "growth_peernet", fresh=fresh)


def _harness(sub, args, timeout=900):
    rc, out = V.ckbv("g_peernet", [sub] + [str(a) for a in args], timeout=timeout)
    if rc != 0:
        V.log(out[-2000:])
        raise V.ToolError("g_peernet %s failed rc=%d" % (sub, rc))
    return [json.loads(x) for x in out.splitlines() if x.startswith("{")]


def _write(path, evs):
    with open(path, "w") as f:
        for e in evs:
            f.write(json.dumps(e) + "\n")


def _split(evs):
    hs, cur = [], []
    for e in evs:
        if e["ev"] == "Reset" and cur:
            hs.append(cur)
            cur = []
        cur.append(e)
    if cur:
        hs.append(cur)
    return hs


def _signature(ev):
    s = ev["ev"]
    if "ret" in ev:
        s += "/ret=" + str(ev["ret"])
    if ev["ev"] == "Accept" and ev.get("evicted"):
        s += "/evicting"
    if ev["ev"] == "Fetch":
        s += "/" + ev["kind"]
    if ev.get("api_ok") is False:
        s += "/api-inconsistent"
    return s


def validate(c, evs, tag, meta):
    """one TLC run over all histories; on a rejection the history is reported and the following ones validated on their own"""
    hs = _split(evs)
    pos, good, bad = 0, 0, 0
    n = 0
    while pos < len(hs):
        flat = [e for h in hs[pos:] for e in h]
        part = os.path.join(_wd(), "%s_%d.ndjson" % (tag, n))
        _write(part, flat)
        ok, res = V.validate_trace(PID, "Trace_PeerNet", "Trace_PeerNet.cfg", part, tag="pn_%s_%d" % (tag, n), timeout=900)
        n += 1
        if ok:
            good += len(flat)
            break
        m = re.search(r'<<\s*"TRACE-REJECTED",\s*(\d+),', res["out"])
        if m:
            at = int(m.group(1))
        elif res["violated"]:
            stn = re.findall(r"^State (\d+):", res["out"], re.M)
            at = (int(stn[-1]) - 1) if stn else len(flat)
        else:
            V.log(res["out"][-3000:])
            raise V.ToolError("trace validation of %s ended without a verdict" % part)
        at = max(1, min(at, len(flat)))
        # which history does event `at` belong to
        k, acc = pos, 0
        while acc + len(hs[k]) < at:
            acc += len(hs[k])
            k += 1
        frag = hs[k][: at - acc]
        ev = frag[-1]
        c.violation("growth-peernet/%s/%s" % (_signature(ev), res["violated"] or "not-a-behaviour"),
                    "real peer-registry / peer-store history is not a behaviour of PeerNet.tla at event %d (%s)%s" % (
                        at - acc, ev["ev"], (": violates " + res["violated"]) if res["violated"] else ""),
                    dict(meta, kind="growth-peernet", events=frag, violated=res["violated"], tlc_tail=res["out"][-1500:]))
        bad += 1
        good += at - 1
        pos = k + 1
        if n > 8:
            break
    return good, bad


def judge_purge(c, recs, tag, meta):
    part = os.path.join(_wd(), "purge_%s.ndjson" % tag)
    _write(part, recs)
    res = V.tlc(PID, "Judge_PeerPurge", "Judge_PeerPurge.cfg", workers=1, env={"TRACE": part}, timeout=900, coverage=False,
                xmx="4g", xss="1g", tag="pn_purge_" + tag)
    if res["violated"]:
        m = re.search(r'<<\s*"PURGE-REJECTED",\s*(\d+),', res["out"])
        i = int(m.group(1)) if m else 1
        e = recs[i - 1]
        shape = "dead-entries" if e["dead"] else ("nothing-removable" if e["ret"] == "full" else "groups")
        c.violation("growth-peernet/Purge/%s" % shape, "the purge of a full address book does not follow PurgeOK (experiment %d)" % e["x"],
                    dict(meta, kind="growth-peernet-purge", x=e["x"], record={k: v for k, v in e.items() if k not in ("groups",)},
                         tlc_tail=res["out"][-1200:]))
        return 0, 1
    if res["rc"] != 0:
        V.log(res["out"][-2000:])
        raise V.ToolError("Judge_PeerPurge failed rc=%s" % res["rc"])
    return len(recs), 0


def run(c, tier):
    import concurrent.futures as cf
    quick = tier == "quick"
    g = {"tier": tier, "tlc": []}
    V.build_harness("g_peernet")
    _wd(fresh=True)
    # ---- 1. exhaustive: limits, whitelist, bans, eviction, the session layer above the registry -------------------------
    cfgs = ["reg_q", "nobr_q", "wo", "ban"] if quick else ["reg_q", "evict_q", "nobr", "wo", "ban", "book"]
    with cf.ThreadPoolExecutor(max_workers=3) as ex:
        results = list(ex.map(lambda x: V.tlc(PID, "MC_PeerNet", "MC_PeerNet_%s.cfg" % x, workers=3, timeout=1500, xmx="5g",
                                              tag="MC_PeerNet_" + x), cfgs))
    for x, res in zip(cfgs, results):
        if res["violated"]:
            c.violation("growth-peernet/model/%s" % res["violated"], "PeerNet.tla violates %s in MC_PeerNet_%s.cfg" % (res["violated"], x),
                        {"kind": "model", "module": "MC_PeerNet", "cfg": "MC_PeerNet_%s.cfg" % x, "tlc_tail": res["out"][-3000:]})
        need = ["MAccept", "MClose"] + (["MBan", "MTick"] if x == "ban" else []) + (["MBook"] if x == "book" else [])
        V.require_coverage(res, need, "MC_PeerNet_" + x)
        c.add_tlc(res, "growth:MC_PeerNet_" + x)
        g["tlc"].append({"cfg": x, "distinct": res["distinct"], "generated": res["generated"], "wall_s": res["wall_s"]})
    # the close handler as written in network.rs (the peer store is told only when the registry still held the session) must
    # violate NoStaleConnected: the model distinguishes the two readings (design.d/G-net.md, observation O1)
    res = V.tlc(PID, "MC_PeerNet", "MC_PeerNet_coded.cfg", workers=2, timeout=600, coverage=False, tag="MC_PeerNet_coded")
    if res["violated"] != "NoStaleConnected":
        raise V.ToolError("MC_PeerNet_coded: expected NoStaleConnected to be violated, got %s" % res["violated"])
    g["coded_close_handler_violates"] = "NoStaleConnected"
    if not quick:
        for inv, x in (("VacNoEviction", "evict_q"), ("VacNoBR", "reg_q"), ("VacNoBannedRefusal", "ban"), ("VacNoFull", "book")):
            cfgp = os.path.join(_wd(), "vac_%s.cfg" % inv)
            base = open(os.path.join(V.ROOT, "spec", "MC_PeerNet_%s.cfg" % x)).read()
            # without the VIEW: it hides `out`, and a refusal changes nothing else - the state would not count as new
            base = "\n".join(l for l in base.splitlines() if not l.startswith(("INVARIANT", "PROPERTY", "VIEW")))
            with open(cfgp, "w") as f:
                f.write(base + "\nINVARIANT %s\n" % inv)
            r = V.tlc(PID, "MC_PeerNet", cfgp, workers=3, timeout=900, coverage=False, tag="vac_" + inv)
            if r["violated"] != inv:
                raise V.ToolError("vacuous PeerNet model: %s is not violated in %s (%s)" % (inv, x, r["violated"]))
        g["vacuity_guards_reached"] = ["eviction", "block-relay-only", "banned-refusal", "book-full"]
    # ---- 2. T: random histories on the real registry / store, the controller's ban interface, the purge ----------------
    nh, steps = (12, 160) if quick else (96, 260)
    per = 12
    jobs = [(V.seed() * 17 + 3, first, min(per, nh - first)) for first in range(0, nh, per)]
    with cf.ThreadPoolExecutor(max_workers=4) as ex:
        outs = list(ex.map(lambda j: _harness("drive", ["--seed", j[0], "--first", j[1], "--histories", j[2], "--steps", steps]), jobs))
    evs = [e for o in outs for e in o]
    cnt = collections.Counter(e["ev"] for e in evs)
    rets = collections.Counter(e["ret"] for e in evs if e["ev"] == "Accept")
    evictions = sum(1 for e in evs if e["ev"] == "Accept" and e.get("evicted"))
    fetched = sum(1 for e in evs if e["ev"] == "Fetch" and e["res"])
    # evictions decided by the protection rounds: more than Protect (8) / more than 2 Protect candidates before the eviction
    big = {9: 0, 17: 0}
    prev = None
    for e in evs:
        if e["ev"] == "Accept" and e.get("evicted") and prev is not None:
            k = sum(1 for p in prev["st"]["peers"] if p["ty"] == "in" and not p["wl"])
            for lim in (9, 17):
                if k >= lim:
                    big[lim] += 1
        if e["ev"] == "Restart" and prev is not None and len(prev["st"]["anchors"]) >= 2:
            big["anchors"] = big.get("anchors", 0) + 1
        prev = e
    # validation first: a rejected history is reported even when the code under test no longer produces a situation the
    # vacuity guards ask for
    good, bad = validate(c, evs, "drive", {"source": "drive", "seed": V.seed()})
    if not bad:
        # vacuity: the interesting situations must have occurred in the real histories
        for what, n in (("evictions", evictions), ("Banned refusals", rets.get("Banned", 0)), ("PeerIdExists refusals", rets.get("PeerIdExists", 0)),
                        ("outbound-limit refusals", rets.get("ReachMaxOutboundLimit", 0)), ("non-empty fetches", fetched),
                        ("restarts", cnt.get("Restart", 0)), ("bans", cnt.get("BanAddr", 0)),
                        ("evictions among more than 8 candidates", big[9]), ("evictions among more than 16 candidates", big[17]),
                        ("restarts with two or more anchors", big.get("anchors", 0))):
            if n == 0:
                raise V.ToolError("peernet histories are vacuous: no %s" % what)
    for i, h in enumerate(_split(evs)):
        c.case({"g_peernet_history": i, "seed": V.seed(), "events": len(h)}, any(e["ev"] == "Accept" and e.get("evicted") for e in h))
    smp = next((e for e in evs if e["ev"] == "Accept" and e.get("evicted")), None)
    if smp:
        c.sample({"growth_peernet_event": smp})
    cevs = _harness("ctl", ["--seed", V.seed() * 5 + 1, "--histories", 3 if quick else 12, "--steps", 40])
    cgood, cbad = validate(c, cevs, "ctl", {"source": "ctl", "seed": V.seed()})
    for i, h in enumerate(_split(cevs)):
        c.case({"g_peernet_ctl_history": i, "seed": V.seed(), "events": len(h)}, any(e["ev"] == "BanUntil" for e in h))
    precs = _harness("purge", ["--seed", V.seed() * 3 + 2, "--experiments", 8 if quick else 32])
    shapes = collections.Counter(("dead" if r["dead"] else r["ret"]) for r in precs)
    for need in ("dead", "ok", "full"):
        if shapes.get(need, 0) == 0:
            raise V.ToolError("purge experiments are vacuous: no '%s' outcome" % need)
    pgood, pbad = judge_purge(c, precs, "run", {"source": "purge", "seed": V.seed()})
    for r in precs:
        c.case({"g_peernet_purge": r["x"], "seed": V.seed()}, bool(r["removed"]))
    g.update({"histories": len(_split(evs)), "events_validated": good, "histories_rejected": bad, "event_counts": dict(cnt),
              "accept_answers": dict(rets), "evictions": evictions, "evictions_among_9plus_candidates": big[9],
              "evictions_among_17plus_candidates": big[17], "restarts_with_2plus_anchors": big.get("anchors", 0), "non_empty_fetches": fetched,
              "ctl_histories": len(_split(cevs)), "ctl_events_validated": cgood, "ctl_rejected": cbad,
              "purge_experiments": len(precs), "purge_outcomes": dict(shapes), "purge_rejected": pbad})
    c.add("traces_validated_against_impl", len(_split(evs)) + len(_split(cevs)))
    c.set("growth_peernet", g)


def replay(c, p):
    V.build_harness("g_peernet")
    _wd(fresh=True)
    if p["kind"] == "model":
        res = V.tlc(PID, "MC_PeerNet", p["cfg"], workers=3, timeout=1500)
        if res["violated"]:
            c.violation("growth-peernet/model/%s" % res["violated"], "PeerNet.tla violates %s" % res["violated"], p)
        return 1 if c.violations else 0
    if p["kind"] == "growth-peernet-purge":
        seed = p.get("seed", V.seed())
        precs = _harness("purge", ["--seed", seed * 3 + 2, "--experiments", p["x"] + 1])
        judge_purge(c, precs, "replay", {"source": "replay", "seed": seed})
        return 1 if c.violations else 0
    # a recorded history: re-execute its source (same seed -> same operations on the current tree), validate again
    seed = p.get("seed", V.seed())
    if p.get("source") == "ctl":
        evs = _harness("ctl", ["--seed", seed * 5 + 1, "--histories", 12, "--steps", 40])
    else:
        evs = []
        for first in range(0, 96, 12):
            evs += _harness("drive", ["--seed", seed * 17 + 3, "--first", first, "--histories", 12, "--steps", 260])
    validate(c, evs, "replay", {"source": p.get("source", "drive"), "seed": seed})
    return 1 if c.violations else 0
