"""C03 — a block joins the main chain iff it meets every consensus rule in its context.

1. TLC checks the sanity invariants of ConsensusRules.tla exhaustively on a tiny configuration (the declarative
   validity predicate is self-consistent: contexts built by valid steps stay valid, single-field mutations break only
   rules of their own family, the past-median is monotone, ...).
2. TLC (simulation, seeded by VERIF_SEED) grows random VALID contexts by valid extension steps and prints, for every
   prefix of each context, the probe catalogue (every rule: value at the boundary and one step on each side) with the
   verdict the SPECIFICATION assigns.
3. R: `c03 run` rebuilds each context on a real node; every probe becomes a real block (built with the production
   calculators, bent as the abstract record says) and goes through HeaderVerifier + chain service; accept/reject,
   "state unchanged after a refusal", the 2-block side branch ("refused as a whole") and "no extension of a refused
   branch" are compared with the spec's verdicts here.
"""
import collections
import concurrent.futures
import json
import os

import vcheck as V

PID = "C03"
CRASHED = []
ACTIONS = ["ChooseMode", "Fork", "ChooseTs", "ChooseProps", "ChooseCommits", "ChooseUncles"]
SIMS = ["MC_ConsensusRules_simA.cfg", "MC_ConsensusRules_simB.cfg"]

# error text expected for a block that breaks exactly this rule (class check, where the pipeline's report is stable)
CLASS = {
    "number": ["Number("], "parent": ["UnknownParent"], "epoch": ["Epoch("], "ts_median": ["BlockTimeTooOld"],
    "ts_future": ["BlockTimeTooNew"], "target": ["TargetMismatch"], "cellbase": ["Cellbase(Invalid"],
    "roots": ["TransactionsRoot", "ProposalTransactionsHash", "InvalidExtraHash"], "bytes": ["ExceededMaximumBlockBytes"],
    "cycles": ["ExceededMaximumCycles"], "proposals": ["ExceededMaximumProposalsLimit", "ProposalTransactionDuplicate"],
    "extension": ["BlockExtension", "InvalidChainRoot"], "uncle_count": ["Uncles(OverCount"],
    "uncle_target": ["Uncles(InvalidTarget"], "uncle_epoch": ["Uncles(InvalidDifficultyEpoch"],
    "uncle_number": ["Uncles(InvalidNumber"], "uncle_descent": ["Uncles(DescendantLimit", "Uncles(DoubleInclusion"],
    "uncle_double": ["Uncles(DoubleInclusion", "Uncles(Duplicate"],
    "uncle_proposals": ["Uncles(ExceededMaximumProposalsLimit", "Uncles(ProposalDuplicate", "Uncles(ProposalsHash"],
    "commit_window": ["Commit(Invalid"], "tx_valid": ["OutPoint(", "CommitTransactionDuplicate"],
    "reward": ["Cellbase(InvalidReward"], "dao": ["InvalidDAO"],
}
# every rule family must have been exercised on both sides (vacuity guard): (description, predicate on a probe record)
REQUIRED = [
    ("number ok", lambda p: p["fam"] == "number" and p["verdict"] == "accept"),
    ("number off", lambda p: p["rules"] == ["number"]),
    ("unknown parent", lambda p: p["rules"] == ["parent"]),
    ("epoch successor inside an epoch", lambda p: p["fam"] == "epoch" and p["verdict"] == "accept" and p["b"]["ep"][1] > 0),
    ("epoch head after the tail", lambda p: p["fam"] == "epoch" and p["verdict"] == "accept" and p["b"]["ep"][1] == 0),
    ("epoch broken", lambda p: p["rules"] == ["epoch"]),
    ("malformed epoch", lambda p: p["rules"] == ["epoch"] and p["b"]["ep"][1] >= p["b"]["ep"][2]),
    ("ts = median", lambda p: p["rules"] == ["ts_median"]),
    ("ts = median+1", lambda p: p["fam"] == "ts_median" and p["verdict"] == "accept"),
    ("ts = now+15s", lambda p: p["fam"] == "ts_future" and p["verdict"] == "accept"),
    ("ts = now+15s+1ms", lambda p: p["rules"] == ["ts_future"]),
    ("target", lambda p: p["rules"] == ["target"]),
    ("cellbase shape", lambda p: p["rules"] == ["cellbase"]),
    ("roots", lambda p: p["rules"] == ["roots"]),
    ("bytes at limit", lambda p: p["fam"] == "bytes" and p["verdict"] == "accept" and p["b"]["bytes"] > 0),
    ("bytes over limit", lambda p: p["rules"] == ["bytes"]),
    ("cycles at limit", lambda p: p["fam"] == "cycles" and p["verdict"] == "accept" and len(p["b"]["commits"]) >= 1),
    ("cycles over limit", lambda p: p["rules"] == ["cycles"]),
    ("proposals at limit", lambda p: p["fam"] == "proposals" and p["verdict"] == "accept"),
    ("proposals over limit / duplicate", lambda p: p["rules"] == ["proposals"]),
    ("extension ok", lambda p: p["fam"] == "extension" and p["verdict"] == "accept" and p["b"]["ext"] == "root64"),
    ("extension broken", lambda p: p["rules"] == ["extension"]),
    ("commit at w_close", lambda p: p["fam"] == "commit_window" and p["lab"] == "d=wclose" and p["verdict"] == "accept"),
    ("commit at w_far", lambda p: p["fam"] == "commit_window" and p["lab"] == "d=wfar" and p["verdict"] == "accept"),
    ("commit at w_far+1", lambda p: p["fam"] == "commit_window" and p["lab"] == "d=wfar+1" and p["verdict"] == "reject"),
    ("commit at w_close-1", lambda p: p["fam"] == "commit_window" and p["lab"] == "d=wclose-1" and p["verdict"] == "reject"),
    ("commit proposed only by an uncle", lambda p: p["fam"] == "commit_window" and p["verdict"] == "accept" and p.get("via_uncle")),
    ("commit of a spent input", lambda p: "tx_valid" in p["rules"]),
    ("uncle ok", lambda p: p["fam"] == "uncle_single" and p["verdict"] == "accept"),
    ("two uncles ok", lambda p: p["fam"] == "uncle_pair" and p["verdict"] == "accept"),
    ("uncle whose parent is an embedded uncle", lambda p: p["fam"] in ("uncle_single", "uncle_pair") and p["verdict"] == "accept" and p.get("deep_uncle")),
    ("embedded parent one block lower (valid)", lambda p: p["fam"] == "uncle_descent_number" and p["lab"] in ("same-block/par=num-1", "fab-same-block/par=num-1") and p["verdict"] == "accept"),
    ("embedded parent two blocks lower", lambda p: p["lab"] in ("same-block/par=num-2", "fab-same-block/par=num-2") and p["rules"] == ["uncle_descent"]),
    ("embedded parent at the same number", lambda p: p["lab"] in ("same-block/par=num", "fab-same-block/par=num") and p["rules"] == ["uncle_descent"]),
    ("child of an uncle that is not embedded", lambda p: p["lab"] == "fab-child-alone" and p["rules"] == ["uncle_descent"]),
    ("ancestor parent one block lower (valid)", lambda p: p["lab"] == "main/par=num-1" and p["verdict"] == "accept"),
    ("ancestor parent two blocks lower", lambda p: p["lab"] == "main/par=num-2" and p["rules"] == ["uncle_descent"]),
    ("ancestor parent at the same number", lambda p: p["lab"] == "main/par=num" and p["rules"] == ["uncle_descent"]),
    ("parent embedded by an ancestor, one block lower (valid)", lambda p: p["lab"] == "anc-embedded/par=num-1" and p["verdict"] == "accept"),
    ("parent embedded by an ancestor, wrong distance", lambda p: p["lab"] in ("anc-embedded/par=num", "anc-embedded/par=num-2") and p["rules"] == ["uncle_descent"]),
    ("uncles = max", lambda p: p["fam"] == "uncle_count" and p["lab"] == "max" and p["verdict"] == "accept"),
    ("uncles = max+1", lambda p: p["rules"] == ["uncle_count"]),
    ("uncle of another epoch", lambda p: p["rules"] == ["uncle_epoch"]),
    ("uncle not lower", lambda p: "uncle_number" in p["rules"]),
    ("uncle without proper descent", lambda p: p["rules"] == ["uncle_descent"]),
    ("uncle included twice", lambda p: p["rules"] == ["uncle_double"]),
    ("uncle target", lambda p: p["rules"] == ["uncle_target"]),
    ("uncle proposals at limit", lambda p: p["fam"] == "uncle_proposals" and p["lab"] == "atlimit" and p["verdict"] == "accept"),
    ("uncle proposals broken", lambda p: p["rules"] == ["uncle_proposals"]),
    ("reward ok with a finalisation target", lambda p: p["fam"] == "reward" and p["verdict"] == "accept" and p.get("final")),
    ("reward ok without target", lambda p: p["fam"] == "reward" and p["verdict"] == "accept" and not p.get("final")),
    ("reward off", lambda p: p["rules"] == ["reward"]),
    ("dao off", lambda p: p["rules"] == ["dao"]),
]


def annotate(ctx):
    """derive a few labels used by the coverage guard (purely from the abstract context)"""
    wfar = ctx["params"]["wfar"]
    sides = ctx["sides"]
    for m, ps in enumerate(ctx["probes"]):
        chain = ctx["chain"][:m]
        for p in ps:
            b = p["b"]
            p["final"] = (m + 1) > wfar + 1
            if p["fam"] == "commit_window" and p["verdict"] == "accept":
                t = b["commits"][0]
                direct = any(t in blk["props"] for blk in chain)
                p["via_uncle"] = not direct
            if p["fam"] in ("uncle_single", "uncle_pair") and p["verdict"] == "accept":
                p["deep_uncle"] = any(u["ref"]["k"] == "s" and sides[u["ref"]["i"] - 1]["par"]["k"] == "s" for u in b["uncles"])


def gen_contexts(c, tier, n_per_cfg):
    ctxs = []
    for k, cfg in enumerate(SIMS):
        res = V.tlc(PID, "MC_ConsensusRules", cfg, workers=1, simulate="num=%d" % n_per_cfg, depth=400, timeout=900,
                    seed_=V.seed() * 10 + k, tag="sim%d" % k)
        got = V.tlc_json_lines(res["out"], "CTX")
        if len(got) < n_per_cfg:
            V.log(res["out"][-3000:])
            raise V.ToolError("simulation %s produced %d of %d contexts" % (cfg, len(got), n_per_cfg))
        m = V.SIM_RE.search(res["out"])
        c.add("simulated_states", int(m.group(1)) if m else 0)
        for g in got:
            g["cfg"] = cfg
            annotate(g)
        ctxs += got
    return ctxs


def run_one(path, i, seed_):
    rc, out = V.ckbv("c03", ["run", "--in", path, "--only", i, "--seed", seed_], timeout=900)
    return i, rc, out


def replay_contexts(c, ctxs, path):
    with open(path, "w") as f:
        for x in ctxs:
            f.write(json.dumps(x) + "\n")
    V.build_harness("c03")
    results = {}
    with concurrent.futures.ThreadPoolExecutor(max_workers=4) as ex:
        for i, rc, out in ex.map(lambda i: run_one(path, i, V.seed()), range(len(ctxs))):
            lines = V.parse_ndjson(out)
            if rc != 0 or not any("summary" in x for x in lines):
                # a crash inside the code under test is data: judge what was observed first, complain afterwards
                V.log(out[-1500:])
                CRASHED.append("c03 run failed on context %d rc=%d" % (i, rc))
            results[i] = lines
    return results


def judge(c, ctxs, results):
    stats = collections.Counter()
    covered = collections.Counter()
    class_mismatch = []
    for i, ctx in enumerate(ctxs):
        short = {"cfg": ctx["cfg"], "params": ctx["params"], "chain": ctx["chain"], "sides": ctx["sides"]}
        complete = True
        for line in results[i]:
            if "context_block" in line:
                o = line["context_block"]
                if not o["attached"]:
                    complete = False
                    blk = ctx["chain"][o["m"] - 1]
                    c.violation("valid-rejected/context-block/%s" % errclass(o["err"]),
                                "block %d of a context the spec calls valid was refused: %s" % (o["m"], o["err"]),
                                {"ctx": ctx, "at": o, "block": blk})
                stats["context_blocks"] += 1
            elif "probe" in line:
                o = line["probe"]
                src = ctx["branch_probes"] if o.get("branch") else ctx["probes"][o["m"]]
                p = src[o["i"]]
                if "unrealised" in o:
                    stats["unrealised"] += 1
                    V.log("unrealised probe: %s" % json.dumps(o))
                    continue
                stats["probes"] += 1
                got = "accept" if o["attached"] else "reject"
                nontrivial = p["verdict"] != "accept" or p["fam"] not in ("number", "parent", "target", "roots", "dao")
                c.case({"cfg": ctx["cfg"], "prefix": ctx["chain"][:o["m"]], "sides": ctx["sides"], "b": p["b"], "branch": o.get("branch")}, nontrivial)
                stats["expect_" + p["verdict"]] += 1
                if o.get("branch"):
                    stats["branch_probes"] += 1
                for n, (desc, pred) in enumerate(REQUIRED):
                    if not o.get("branch") and pred(p):
                        covered[n] += 1
                payload = {"ctx": short, "m": o["m"], "branch": bool(o.get("branch")), "probe": p, "observed": o,
                           "branch_base": ctx["branch_base"], "full_ctx": ctx}
                where = "branch/" if o.get("branch") else ""
                if p["verdict"] == "accept" and got != "accept":
                    c.violation("valid-rejected/%s%s/%s/%s" % (where, p["fam"], p["lab"], errclass(o["err"])),
                                "spec: valid (%s %s); pipeline refused: %s" % (p["fam"], p["lab"], o["err"]), payload)
                elif p["verdict"] == "reject" and got != "reject":
                    c.violation("invalid-attached/%s%s/%s" % (where, "+".join(p["rules"]), p["lab"]),
                                "spec: breaks %s; pipeline attached the block" % p["rules"], payload)
                elif got == "reject":
                    if not o["unchanged"]:
                        c.violation("refused-but-state-changed/%s%s" % (where, p["fam"]), "tip/state differ after a refusal", payload)
                    elif o["ok"]:
                        c.violation("refusal-not-reported/%s%s" % (where, p["fam"]), "block not attached but reported Ok to the submitter", payload)
                    elif p["verdict"] == "reject" and len(p["rules"]) == 1 and not p["may"]:
                        want = CLASS[p["rules"][0]]
                        if not any(w in o["err"] for w in want):
                            class_mismatch.append({"rule": p["rules"][0], "lab": p["lab"], "err": o["err"][:120]})
                if p["verdict"] == "either":
                    stats["unspecified_" + got] += 1
            elif "context_lost" in line:
                complete = False
                stats["contexts_lost"] += 1
            elif "branch_base" in line:
                o = line["branch_base"]
                if not o["ok"] or not o["tip_kept"]:
                    c.violation("branch/equal-work-sibling", "a valid equal-work sibling was refused or replaced the tip: %s" % o, {"ctx": ctx, "observed": o})
            elif "extension_of_refused" in line:
                o = line["extension_of_refused"]
                stats["extension_of_refused"] += 1
                if o["attached"] or not o["unchanged"]:
                    c.violation("branch/extension-of-refused-attached", "a descendant of a refused block changed the chain: %s" % o, {"ctx": ctx, "observed": o})
            elif "branch_valid" in line:
                o = line["branch_valid"]
                stats["branch_valid"] += 1
                if not (o["attached"] and o["s1_on_main"] and o["ok"]):
                    c.violation("branch/valid-heavier-branch-not-attached", "valid 2-block branch with more work was not attached: %s" % o, {"ctx": ctx, "observed": o})
        if complete:
            stats["contexts_complete"] += 1
    return stats, covered, class_mismatch


def errclass(e):
    import re
    m = re.findall(r"[A-Za-z]+", e)
    return "-".join(m[:3]) if m else "none"


def run_growth_versionbits(c, tier):
    """Spec growth beyond the listed properties (DESIGN.md 3.7): soft-fork deployment state machine, Versionbits.tla bound
    to the real Versionbits code (checks/g_versionbits.py). Numbers land in coverage["growth_versionbits"]."""
    import g_versionbits
    return g_versionbits.run(c, tier)


def run(tier):
    c = V.Check(PID, "model_checking", tier)
    c.rule = ("cases = (context prefix, candidate block) pairs judged by the spec and submitted as real blocks; non-trivial = "
              "the spec rejects the block, or the block sits on the accepting side of a context-dependent boundary")
    c.assumptions = [
        "dummy proof of work (Eaglesong acceptance is C07); constant-difficulty epochs (length L); reward and DAO amounts are "
        "taken from the production calculators (C06) and only perturbed",
        "transactions inside probe blocks are independent always-success spends (transaction rules are C04)",
        "where the rule text is silent (even-sized median sample, uncle listed before its embedded parent) the spec's verdict "
        "is 'either' and nothing is compared",
    ]
    # 1. exhaustive sanity of the specification
    cfgs = ["MC_ConsensusRules_ex.cfg"] if tier == "quick" else ["MC_ConsensusRules_ex.cfg", "MC_ConsensusRules_ex3.cfg"]
    for cfg in cfgs:
        res = V.tlc(PID, "MC_ConsensusRules", cfg, workers=4, timeout=1800, xmx="3g")
        if res["violated"]:
            c.violation("model/" + res["violated"], "ConsensusRules.tla violates %s in %s" % (res["violated"], cfg),
                        {"kind": "model", "cfg": cfg, "tlc_tail": res["out"][-3000:]})
        V.require_coverage(res, ACTIONS, cfg)
        c.add_tlc(res, cfg)
    c.set("exhaustive", False)
    # 2. contexts + probe catalogues from the spec
    n_per = 12 if tier == "quick" else 60
    ctxs = gen_contexts(c, tier, n_per)
    path = os.path.join(V.workdir(PID), "ctxs.ndjson")
    # 3. replay on the real pipeline
    results = replay_contexts(c, ctxs, path)
    stats, covered, class_mismatch = judge(c, ctxs, results)
    c.set("replay", dict(stats))
    c.add("traces_validated_against_impl", stats["contexts_complete"])
    c.set("probes_replayed", stats["probes"])
    c.set("rule_family_coverage", {REQUIRED[n][0]: covered[n] for n in range(len(REQUIRED))})
    for ctx in ctxs[:2]:
        c.sample({"context": {"cfg": ctx["cfg"], "chain": [{k: b[k] for k in ("number", "ep", "ts", "props", "commits", "uncles")} for b in ctx["chain"]],
                              "sides": ctx["sides"]},
                  "probes_at_tip": [{k: p[k] for k in ("fam", "lab", "verdict", "rules")} for p in ctx["probes"][-1][:6]]})
    if not c.violations:
        if CRASHED:
            raise V.ToolError("; ".join(CRASHED))
        if stats["contexts_lost"]:
            raise V.ToolError("%d contexts could not be restored after a probe" % stats["contexts_lost"])
        missing = [REQUIRED[n][0] for n in range(len(REQUIRED)) if covered[n] == 0]
        if missing:
            raise V.ToolError("vacuous run: rule boundaries never exercised: %s" % missing)
        if stats["unrealised"]:
            raise V.ToolError("%d probes could not be realised as blocks" % stats["unrealised"])
        if stats["branch_valid"] < len(ctxs) or stats["extension_of_refused"] == 0 or stats["branch_probes"] < 5 * len(ctxs):
            raise V.ToolError("vacuous run: side-branch clause not exercised: %s" % dict(stats))
        if class_mismatch:
            V.log("error-class mismatches: %s" % json.dumps(class_mismatch[:10]))
            raise V.ToolError("%d refusals carried an unexpected error class (probe not realised faithfully?)" % len(class_mismatch))
    run_growth_versionbits(c, tier)
    return c.finish()


def replay(path, tier):
    c = V.Check(PID, "model_checking", tier)
    r = json.load(open(path))
    p = r["payload"]
    if p.get("kind") == "growth_versionbits":
        import g_versionbits
        g_versionbits.replay(c, p)
        return 1 if c.violations else 0
    if p.get("kind") == "model":
        res = V.tlc(PID, "MC_ConsensusRules", p["cfg"], workers=8)
        if res["violated"]:
            c.violation("model/" + res["violated"], "model violation", p)
        return 1 if c.violations else 0
    ctx = p.get("full_ctx") or p["ctx"]
    f = os.path.join(V.workdir(PID), "replay_ctx.ndjson")
    results = replay_contexts(c, [ctx], f)
    judge(c, [ctx], results)
    return 1 if c.violations else 0
