"""C06 — rewards, fee split and DAO field follow the issuance rules; nothing else mints.

1. TLC checks Economics.tla exhaustively over every valid chain of <= 6 blocks / 2 transactions / 3 proposals
   (blocks, uncles, re-proposals, every commit offset and order): per fee the shares sum to the fee and exactly one block
   is credited (SharesSumToFee), all fees are paid out once (FeesConserved), and the implementation's backwards walk as
   INTENDED equals the declarative earliest-proposer rule (WalkOK); the walk AS CODED (max(index - w_far, 1)) must
   violate it (self-test = finding F8 at the model level).
2. R: TLC's full-length chains (a seeded sample, every class present) and random histories are built as REAL chains by
   harness/src/bin/c06.rs (production assembler calculators, the node verifies every block); per block the cellbase,
   header DAO field, BlockExt.txs_fees, epoch parameters, occupied / total capacity of the live-cell set and the
   RewardCalculator's components are recorded.
3. Judged by the specification: Judge_Economics.tla (TLC; fee components and reward lock: amounts < 2^31 at real
   magnitude) and spec/apa/Economics_A.tla (Apalache; DaoOK, UIsOccupied, CellbaseOK, NoOtherMint at 10^13-sized amounts).
"""
import json
import os
import random
import shutil
import time

import vcheck as V

PID = "C06"
F8 = "reward-mismatch/target=1/own-proposals-counted-as-earlier"
DAO_T = "{ar: Int, c: Int, s: Int, u: Int}"


# ---------------------------------------------------------------------------------------------- scenarios
# named vacuity cases: every class (computed by Economics.tla!Classes) must occur on the REAL chains of every run
REQUIRED = ["commit-at-w_close", "commit-at-w_far", "fee-share-rounded", "first-proposer-is-uncle", "reproposed",
            "double-proposal-commit-inside-first-window", "uncle-first-then-reproposed"]


def fees_for(rnd, n):
    """distinct fees, small enough for sums of a chain to stay below 2^31, never a multiple of 5 (fee*4/10 always rounds)"""
    out = set()
    while len(out) < n:
        out.add(rnd.choice([rnd.randrange(1000, 2000), rnd.randrange(100000, 9000000)]) * 10 + rnd.choice([1, 2, 3, 4, 6, 7, 8, 9]))
    return sorted(out)


def pattern_scenarios(models, rnd, count):
    """models: [(chains exported by TLC with their classes, wc, wf)].  Stratified: two patterns of EVERY named class
    (shifted by 1..3 blocks so that finding F8, which lives at block 1, cannot truncate them), then a seeded sample."""
    picked = []
    for cl in REQUIRED:
        cands = [(ch, wc, wf) for chains, wc, wf in models for ch in chains if cl in ch["classes"]]
        if not cands:
            raise V.ToolError("vacuous model: no exported chain has class %s" % cl)
        for ch, wc, wf in rnd.sample(cands, min(2, len(cands))):
            picked.append((ch, wc, wf, rnd.randrange(1, 4)))
    allc = [(ch, wc, wf) for chains, wc, wf in models for ch in chains]
    for n, (ch, wc, wf) in enumerate(rnd.sample(allc, max(0, count - len(picked)))):
        # shift 0 keeps the pattern's block 1 at height 1 (finding F8 lives there); other shifts avoid it
        picked.append((ch, wc, wf, 0 if n % 2 == 0 else rnd.randrange(1, 4)))
    res = []
    for n, (ch, wc, wf, shift) in enumerate(picked):
        has_uncle = any(b["uprops"] for b in ch["ch"])       # an uncle must lie in the epoch of the block embedding it
        res.append({"id": "p%d" % n, "wc": wc, "wf": wf, "shift": shift, "epoch_len": 1000 if has_uncle else rnd.choice([5, 7, 1000]),
                    "epoch_reward": 1000003, "fees": fees_for(rnd, 2),
                    "blocks": [{"props": b["props"], "uprops": b["uprops"], "commits": [c["id"] for c in b["commits"]]}
                               for b in ch["ch"]], "tail": wf + 2})
    return res


def random_scenario(rnd, n, wc, wf, ntx, length):
    """random history obeying two-step confirmation (structure only)"""
    blocks, committed = [], set()
    shift = rnd.choice([0, 1, 2])
    for c in range(1, length + 1):
        props = [t for t in range(1, ntx + 1) if t not in committed and rnd.random() < 0.22]
        up = [t for t in range(1, ntx + 1) if t not in committed and rnd.random() < 0.12] if shift + c >= 2 and n % 2 == 0 else []
        window = [p for p in range(1, c) if c - wf <= p <= c - wc]
        cand = [t for t in range(1, ntx + 1) if t not in committed and
                any(t in blocks[p - 1]["props"] + blocks[p - 1]["uprops"] for p in window)]
        commits = [t for t in cand if rnd.random() < 0.5]
        rnd.shuffle(commits)
        committed.update(commits)
        blocks.append({"props": props, "uprops": up, "commits": commits})
    has_uncle = any(b["uprops"] for b in blocks)
    return {"id": "r%d" % n, "wc": wc, "wf": wf, "shift": shift, "epoch_len": 1000 if has_uncle else rnd.choice([4, 7, 9]),
            "epoch_reward": rnd.choice([1000003, 999983, 77777]), "fees": fees_for(rnd, ntx), "blocks": blocks, "tail": wf + 2}


# ---------------------------------------------------------------------------------------------- real chains
class AccountingRefusal(Exception):
    """the production DAO / reward accounting refused a block of a VALID history while the harness assembled it"""

    def __init__(self, scenario, error):
        Exception.__init__(self, "%s: %s" % (scenario, error))
        self.scenario, self.error = scenario, error


def build_chains(scenarios):
    res = {}
    # <= 20 chains per harness process: every node keeps ~75 MB of preallocated RocksDB WAL until the process ends
    # (vcheck.ckbv removes the process's TMPDIR afterwards)
    for i in range(0, len(scenarios), 20):
        part = scenarios[i:i + 20]
        inp = "".join(json.dumps(s) + "\n" for s in part)
        rc, out = V.ckbv("c06", ["chains"], timeout=1500, stdin=inp.encode(), env={"VERIF_SATOSHI_GENESIS_CELLS": "1"})
        lines = V.parse_ndjson(out)
        summ = [x["summary"] for x in lines if "summary" in x]
        if rc != 0 or not summ:
            V.log(out[-3000:])
            raise V.ToolError("c06 chains failed rc=%d" % rc)
        for x in lines:
            if "scenario" in x:
                if "error" in x:
                    # the scenarios are valid histories: when it is the node's own DAO accounting that fails on one, that is data
                    if "dao:" in x["error"] or "Dao" in x["error"]:
                        raise AccountingRefusal(x["scenario"], x["error"])
                    raise V.ToolError("scenario %s could not be built on the real node: %s" % (x["scenario"], x["error"]))
                res[x["scenario"]] = x
    return res


# ---------------------------------------------------------------------------------------------- TLC judge (fees, locks)
def judge_fees(c, scenarios, chains, real_classes=None):
    n_targets = 0
    for (wc, wf) in sorted({(s["wc"], s["wf"]) for s in scenarios}):
        group = [s for s in scenarios if (s["wc"], s["wf"]) == (wc, wf)]
        path = os.path.join(V.workdir(PID), "chains_%d%d.ndjson" % (wc, wf))
        with open(path, "w") as f:
            for s in group:
                blocks = chains[s["id"]]["blocks"]
                ch = [{"props": b["props"], "uprops": b["uprops"], "commits": b["commits"], "miner": b["miner_tag"]}
                      for b in blocks[1:]]
                obs = [{"b": b["n"], "t": b["calc"]["target"], "cf": b["calc"]["tx_fee"], "pf": b["calc"]["proposal_reward"],
                        "tag": b["cb_lock_tag"] if b["cb_lock_tag"] is not None else -1}
                       for b in blocks[1:] if b["n"] > wf + 1]
                f.write(json.dumps({"id": s["id"], "ch": ch, "obs": obs}) + "\n")
        res = V.tlc(PID, "Judge_Economics", "Judge_Economics_%d%d.cfg" % (wc, wf), workers=1, env={"CHAINS": path},
                    timeout=900, coverage=False, tag="judge%d%d" % (wc, wf))
        verdicts = V.tlc_json_lines(res["out"], "VERDICT")
        seen = {}
        for v in verdicts:
            seen[v["id"]] = v
        if res["rc"] != 0 or set(seen) != {s["id"] for s in group}:
            V.log(res["out"][-3000:])
            raise V.ToolError("Judge_Economics did not produce a verdict for every chain (rc=%d)" % res["rc"])
        for s in group:
            v = seen[s["id"]]
            if not v["valid"]:
                raise V.ToolError("chain %s accepted by the node is not a valid chain of Economics.tla (model/fixture mismatch)" % s["id"])
            if real_classes is not None and s["shift"] >= 1:
                for cl in v["classes"]:
                    real_classes[cl] = real_classes.get(cl, 0) + 1
            stop = False
            for t in v["targets"]:
                if stop:
                    c.add("truncated_by_known_finding")
                    break
                n_targets += 1
                if not t["expected"]:
                    c.violation("finalize-target/b=%d" % t["b"], "block %d finalised target %d" % (t["b"], t["t"]),
                                {"kind": "scenario", "scenario": s, "target": t})
                    continue
                if t["cfObs"] != t["cfSpec"]:
                    c.violation("committer-fee-mismatch/target=%s" % ("1" if t["t"] == 1 else "n"),
                                "chain %s: committer fees of block %d: calculator %d, Economics.tla %d" % (
                                    s["id"], t["t"], t["cfObs"], t["cfSpec"]), {"kind": "scenario", "scenario": s, "target": t})
                if t["pfObs"] != t["pfSpec"]:
                    if t["t"] == 1 and t["pfObs"] == t["pfLate"] and t["pfObs"] == t["walkAsCoded"]:
                        key = F8
                    else:
                        key = "reward-mismatch/target=%s/%s" % ("1" if t["t"] == 1 else "n",
                                                                "less" if t["pfObs"] < t["pfSpec"] else "more")
                    if not c.violation(key, "chain %s: proposer fees of block %d: calculator %d, Economics.tla %d "
                                       "(earliest proposer in the window)" % (s["id"], t["t"], t["pfObs"], t["pfSpec"]),
                                       {"kind": "scenario", "scenario": s, "target": t}):
                        stop = True      # known finding: later amounts of this chain could only be knock-on
                if not t["lockOK"]:
                    c.violation("reward-lock/target=%d" % t["t"], "chain %s: reward of block %d paid to another lock" % (s["id"], t["t"]),
                                {"kind": "scenario", "scenario": s, "target": t})
    return n_targets


# ---------------------------------------------------------------------------------------------- Apalache judge (amounts)
def rec(d):
    return "[" + ", ".join("%s |-> %s" % (k, v) for k, v in d.items()) + "]"


def dao_lit(d):
    return rec({"ar": d["ar"], "c": d["c"], "s": d["s"], "u": d["u"]})


def block_literals(chain):
    bl = chain["blocks"]
    wf = chain["wf"]
    out = []
    for b in bl[1:]:
        par = bl[b["n"] - 1]
        has = b["n"] > wf + 1
        t = bl[b["calc"]["target"]] if has else bl[1]
        tpar = bl[t["n"] - 1]
        out.append((b["n"], rec({
            "n": b["n"], "hasTarget": "TRUE" if has else "FALSE", "par": dao_lit(par["dao"]), "dao": dao_lit(b["dao"]),
            "estart": b["epoch"]["start"], "elen": b["epoch"]["len"], "ebase": b["epoch"]["base"], "erem": b["epoch"]["rem"],
            "added": b["added"], "freed": b["freed"], **wd_fields(b), "cbCap": b["cb_cap"], "cbOutputs": b["cb_outputs"],
            "tn": t["n"], "tstart": t["epoch"]["start"], "tlen": t["epoch"]["len"], "tbase": t["epoch"]["base"],
            "trem": t["epoch"]["rem"], "tparU": tpar["dao"]["u"], "tparC": tpar["dao"]["c"],
            "tfee": b["calc"]["tx_fee"] if has else 0, "tprop": b["calc"]["proposal_reward"] if has else 0,
            "cellOcc": b["calc"]["cell_occ"], "liveCap": b["live_cap"], "parLiveCap": par["live_cap"], "liveOcc": b["live_occ"],
            "fees": sum(int(x["fee"]) for x in b["commits"])})))
    return out


def wd_fields(b):
    """NervosDAO phase-2 inputs of a block as flat record fields (at most three per block are generated)"""
    wd = b.get("wd", [])
    if len(wd) > 3:
        raise V.ToolError("more than three NervosDAO withdrawals in one block: extend Economics_A.tla")
    f = {"wdN": len(wd)}
    for k in range(3):
        w = wd[k] if k < len(wd) else {"cap": 0, "occ": 0, "arD": 1, "arW": 1}
        f.update({"w%dcap" % (k + 1): w["cap"], "w%docc" % (k + 1): w["occ"], "w%darD" % (k + 1): w["arD"], "w%darW" % (k + 1): w["arW"]})
    f.update({"wClaim": sum(int(w["claimed"]) for w in wd), "wPlainIn": b.get("w_plain_in", 0), "wOut": b.get("w_out", 0),
              "wFeeObs": b.get("w_fee_obs", 0)})
    return f


def run_apalache(name, secondary, lits, timeout):
    d = V.workdir(PID, "apa_" + name, fresh=True)
    for f in ("Epoch.tla", "EconomicsArith.tla"):
        shutil.copy(os.path.join(V.SPEC, f), d)
    cinit = "\n".join([
        "ConstInit ==",
        "  /\\ MinLen = 300 /\\ MaxLen = 1800 /\\ TargetDur = 14400 /\\ OrphanNum = 1 /\\ OrphanDen = 40 /\\ Tau = 2 /\\ MsPerSec = 1000",
        "  /\\ InitialPrimary = 191780821917808 /\\ Secondary = %s /\\ HalvingInterval = 8760" % secondary,
        "  /\\ Base = 256 /\\ MantDigits = 3 /\\ WordDigits = 32 /\\ NumberSpace = 16777216 /\\ IndexSpace = 65536",
        "  /\\ PowTab = <<%s>>" % ", ".join(str(1 << (8 * k)) for k in range(33)),
        "  /\\ TwoTab = <<%s>>" % ", ".join(str(1 << k) for k in range(66)),
        "  /\\ RatioNum = 4 /\\ RatioDen = 10",
        "  /\\ Blocks = <<\n     %s\n     >>" % ",\n     ".join(lits), ""])
    entry = open(os.path.join(V.SPEC, "apa", "Economics_A.tla")).read().replace("EInit ==", cinit + "\nEInit ==", 1)
    open(os.path.join(d, "Economics_A.tla"), "w").write(entry)
    cmd = ["timeout", str(timeout), "apalache-mc", "check", "--length=0", "--cinit=ConstInit", "--init=EInit", "--next=ENext",
           "--inv=AllBlocksAgree,Census", "--out-dir=" + os.path.join(d, "out"), "--write-intermediate=false", "Economics_A.tla"]
    t0 = time.time()
    rc, out = V.sh(cmd, timeout=timeout + 30, cwd=d, env={"JVM_ARGS": "-Xmx4g"})
    if rc in (124, 137):
        raise V.ToolError("Apalache timed out after %ds on batch %s (not evaluated; not a violation)" % (timeout, name))
    itfs = []
    for root, _, files in os.walk(os.path.join(d, "out")):
        itfs += [os.path.join(root, f) for f in files if f == "violation1.itf.json"]
    if rc != 12 or not itfs:
        V.log(out[-3000:])
        raise V.ToolError("Apalache rc=%d on batch %s (expected 12: the Census probe)" % (rc, name))
    import c07
    st = json.load(open(itfs[0]))["states"][0]
    state = {k: c07.itf_value(v) for k, v in st.items() if not k.startswith("#")}
    shutil.rmtree(os.path.join(d, "out"), ignore_errors=True)
    return state, time.time() - t0, " ".join(cmd)


def judge_amounts(c, scenarios, chains, timeout=900):
    judged = 0
    for s in scenarios:
        ch = chains[s["id"]]
        lits = block_literals(ch)
        state, wall, cmd = run_apalache(str(s["id"]), ch["secondary_epoch"], [x[1] for x in lits], timeout)
        c.cov.setdefault("apalache_cmd", cmd)
        c.cov.setdefault("apalache_batches", []).append({"chain": s["id"], "blocks": len(lits), "wall_s": round(wall, 1)})
        for i, (n, _) in enumerate(lits, start=1):
            judged += 1
            b = ch["blocks"][n]
            if i in set(state["badClaim"]):
                raise V.ToolError("chain %s block %d: the amount the harness made a withdrawal create (%s) is not WithdrawAmount of "
                                  "EconomicsArith.tla (%s): harness arithmetic and specification disagree" % (
                                      s["id"], n, b.get("wd"), state["expWithdraw"].get(json.dumps(i))))
            for var, what in (("badDao", "dao-field"), ("badOccupied", "u-is-not-occupied"), ("badCellbase", "cellbase-amount"),
                              ("badMint", "other-mint"), ("badWithdrawFee", "withdraw-fee")):
                if i in set(state[var]):
                    exp = state["expDao"].get(json.dumps(i)) if var == "badDao" else (
                        state["expCellbase"].get(json.dumps(i)) if var == "badCellbase" else None)
                    c.violation("%s/%s" % (what, "withdrawal-block" if b.get("wd") else "first-payout" if n == ch["wf"] + 2 else "block"),
                                "chain %s block %d: %s differs from the specification: observed dao=%s cellbase=%s live=%s, "
                                "specification %s" % (s["id"], n, what, b["dao"], b["cb_cap"], b["live_cap"], exp),
                                {"kind": "scenario", "scenario": s, "block": n, "spec": exp})
    return judged


# ---------------------------------------------------------------------------------------------- NervosDAO life cycles
DAO_OCC = lambda args: (82 + args) * 100000000     # capacity 8 + lock 33 + args + type 33 + data 8 bytes


def dao_model_check(c, tier):
    """Dao.tla exhaustively: Conservation, UExact, Solvent, PaysExactly, ... over every assignment of life-cycle
    operations to <= 6 blocks for two deposits; the exported full-length chains are the replay patterns."""
    res = V.tlc(PID, "MC_Dao", "MC_Dao_6.cfg", workers=4, timeout=900, coverage=True)
    if res["violated"]:
        c.violation("model/dao/" + res["violated"], "Dao.tla violates %s" % res["violated"],
                    {"kind": "model", "module": "MC_Dao", "cfg": "MC_Dao_6.cfg", "tlc_tail": res["out"][-3000:]})
    V.require_coverage(res, ["MCNext"], "MC_Dao_6.cfg")
    c.add_tlc(res, "MC_Dao_6.cfg")
    pats = V.tlc_json_lines(res["out"], "DAOCHAIN")
    if len(pats) < 500 or res["queue"] != 0:
        raise V.ToolError("MC_Dao_6.cfg: too few life-cycle chains exported (%d) or search not exhausted" % len(pats))
    # oracle self-tests: the accounting variants must be rejected by the invariant that states the rule they break
    for cfg, inv in (("MC_Dao_bug_s.cfg", "Conservation"), ("MC_Dao_bug_occ.cfg", "PaysExactly"), ("MC_Dao_vac.cfg", "NoInterestEver")):
        r = V.tlc(PID, "MC_Dao", cfg, workers=2, timeout=600, coverage=False)
        if r["violated"] != inv:
            raise V.ToolError("oracle self-test failed: %s does not violate %s (got %s)" % (cfg, inv, r["violated"]))
    c.set("selftest_dao_variants_rejected", ["interest_not_taken_from_s -> Conservation", "occupied_part_grows -> PaysExactly",
                                            "vacuity: a withdrawal with positive interest exists"])
    return pats


def dao_cells(rnd, n):
    cells = []
    for i in range(n):
        args = rnd.choice([0, 0, 7, 20, 33])
        occ = DAO_OCC(args)
        kind = (i + rnd.randrange(3)) % 3
        cap = occ + rnd.choice([1, 3, 99999]) if kind == 0 else (
            occ + rnd.randrange(10 ** 9, 10 ** 11) if kind == 1 else rnd.randrange(10 ** 12, 3 * 10 ** 12) + rnd.randrange(1, 10 ** 6))
        cells.append({"cap": cap, "args": args})
    return cells


def dao_scenario(rnd, sid, ops, combine):
    n = len(ops[0])
    return {"id": sid, "epoch_len": rnd.choice([3, 4, 5, 7]), "epoch_reward": rnd.choice([1000003, 999983, 77777]),
            "shift": rnd.choice([1, 2]), "tail": 5, "combine": combine, "cells": dao_cells(rnd, n), "ops": ops,
            "fees": {"deposit": [rnd.randrange(0, 5000) for _ in range(n)], "prepare": [rnd.choice([0, rnd.randrange(1, 3000)]) for _ in range(n)],
                     # the first deposit always withdraws EXACTLY the maximum (fee 0): the boundary on the accepting side
                     "withdraw": [0 if i == 0 else rnd.choice([0, rnd.randrange(1, 10 ** 6)]) for i in range(n)]}}


def dao_random_ops(rnd, n, length):
    ph = ["free"] * n
    nxt = {"free": "deposit", "dep": "prepare", "prep": "withdraw"}
    new = {"deposit": "dep", "prepare": "prep", "withdraw": "out"}
    ops = []
    for b in range(length):
        row = []
        for i in range(n):
            k = nxt.get(ph[i])
            if k and rnd.random() < (0.55 if b < length - 3 else 0.9):
                row.append(k)
                ph[i] = new[k]
            else:
                row.append("none")
        ops.append(row)
    return ops


def dao_scenarios(pats, rnd, tier):
    both_same = [p for p in pats if p["both"] and p["sameBlock"]]
    both_diff = [p for p in pats if p["both"] and not p["sameBlock"]]
    single = [p for p in pats if not p["both"]]
    if not both_same or not both_diff or not single:
        raise V.ToolError("vacuous Dao model: a class of life-cycle chains is missing")
    n_each = 1 if tier == "quick" else 8
    out = []
    for j, p in enumerate(rnd.sample(both_same, n_each)):
        out.append(dao_scenario(rnd, "dc%d" % j, p["ops"], True))          # ONE transaction consuming both phase-1 cells
    for j, p in enumerate(rnd.sample(both_same, n_each)):
        out.append(dao_scenario(rnd, "ds%d" % j, p["ops"], False))         # two phase-2 transactions in one block
    for j, p in enumerate(rnd.sample(both_diff, n_each)):
        out.append(dao_scenario(rnd, "dd%d" % j, p["ops"], False))
    if tier != "quick":
        for j, p in enumerate(rnd.sample(single, n_each)):
            out.append(dao_scenario(rnd, "d1%d" % j, p["ops"], False))
    for j in range(1 if tier == "quick" else 10):
        out.append(dao_scenario(rnd, "dr%d" % j, dao_random_ops(rnd, 3, rnd.choice([7, 8, 9])), j % 2 == 0))
    return out


def build_dao_chains(scenarios):
    res = {}
    for i in range(0, len(scenarios), 20):
        part = scenarios[i:i + 20]
        inp = "".join(json.dumps(s) + "\n" for s in part)
        rc, out = V.ckbv("c06", ["dao"], timeout=1500, stdin=inp.encode())
        lines = V.parse_ndjson(out)
        if rc != 0 or not [x for x in lines if "summary" in x]:
            V.log(out[-3000:])
            raise V.ToolError("c06 dao failed rc=%d" % rc)
        for x in lines:
            if "scenario" in x:
                if "error" in x:
                    raise V.ToolError("NervosDAO scenario %s could not be built on the real node: %s" % (x["scenario"], x["error"]))
                res[x["scenario"]] = x
    return res


def claim_confirmed(s, wd, timeout):
    """the harness' own withdraw arithmetic for these inputs agrees with EconomicsArith!WithdrawAmount (Apalache)"""
    z = {"ar": 1, "c": 1, "s": 0, "u": 0}
    lit = rec({"n": 1, "hasTarget": "FALSE", "par": dao_lit(z), "dao": dao_lit(z), "estart": 0, "elen": 1000, "ebase": 0, "erem": 0,
               "added": 0, "freed": 0, **wd_fields({"wd": wd}), "cbCap": 0, "cbOutputs": 0, "tn": 1, "tstart": 0, "tlen": 1000, "tbase": 0,
               "trem": 0, "tparU": 0, "tparC": 1, "tfee": 0, "tprop": 0, "cellOcc": 0, "liveCap": 0, "parLiveCap": 0, "liveOcc": 0, "fees": 0})
    state, _, _ = run_apalache(str(s["id"]) + "_claim", "1", [lit], timeout)
    return 1 not in set(state["badClaim"])


def judge_dao(c, scenarios, chains, timeout=900):
    """probes and refusals first (they end a chain), then every recorded block at real magnitude"""
    stats = {"withdrawals": 0, "with_interest": 0, "exact_maximum_accepted": 0, "over_by_one_refused": 0, "combined_txs": 0,
             "deposit_and_withdraw_in_different_epochs": 0, "blocks": 0}
    for s in scenarios:
        ch = chains[s["id"]]
        if ch.get("probe_accepted"):
            c.violation("withdraw/over-maximum-accepted", "chain %s block %d: a block whose NervosDAO withdrawal creates ONE shannon more than "
                        "WithdrawAmount was accepted" % (s["id"], ch["probe_accepted"]["block"]), {"kind": "dao", "scenario": s})
        r = ch.get("refused")
        if r:
            # the life cycle is a behaviour of Dao.tla (every operation Allowed, amounts <= WithdrawAmount): a refusal that comes
            # from the DAO accounting itself is a disagreement with the specification, anything else is tool trouble
            if ("Dao(" in r["error"] or "dao:" in r["error"]) and (not r["wd"] or claim_confirmed(s, r["wd"], timeout)):
                c.violation("nervosdao/valid-%s-refused/%s" % ("withdrawal" if "withdraw" in r["kinds"] else "-".join(sorted(set(r["kinds"]))) or "block", r["stage"]),
                            "chain %s block %d: a block whose NervosDAO operations are allowed by Dao.tla (withdrawals creating at most "
                            "WithdrawAmount) is refused by the DAO accounting: %s" % (s["id"], r["block"], r["error"]), {"kind": "dao", "scenario": s})
            else:
                raise V.ToolError("NervosDAO scenario %s: block %d refused at %s: %s" % (s["id"], r["block"], r["stage"], r["error"]))
        for b in ch["blocks"][1:]:
            for pr in b.get("probes", []):
                if pr["verdict"].startswith("rejected") and "Dao(" in pr["verdict"]:
                    stats["over_by_one_refused"] += 1
                elif pr["verdict"] != "accepted":
                    raise V.ToolError("NervosDAO probe of chain %s block %d was refused for another reason: %s" % (s["id"], b["n"], pr["verdict"]))
            for w in b.get("wd", []):
                stats["withdrawals"] += 1
                stats["with_interest"] += 1 if int(w["claimed"]) > int(w["cap"]) else 0
                if w["dnum"] // s["epoch_len"] != w["pnum"] // s["epoch_len"]:
                    stats["deposit_and_withdraw_in_different_epochs"] += 1
            for x in b["commits"]:
                if x.get("kind") == "withdraw":
                    stats["combined_txs"] += 1 if len(x["cells"]) > 1 else 0
                    stats["exact_maximum_accepted"] += 1 if s["fees"]["withdraw"][x["cells"][0] - 1] == 0 and len(x["cells"]) == 1 else 0
        if len(ch["blocks"]) > 1:
            stats["blocks"] += judge_amounts(c, [s], chains, timeout)
    return stats


# ---------------------------------------------------------------------------------------------- driver
def model_check(c, tier):
    models = []
    for cfg, wc, wf, cov in (("MC_Economics_quick.cfg", 1, 2, True), ("MC_Economics_13.cfg", 1, 3, False)):
        res = V.tlc(PID, "MC_Economics", cfg, workers=4, timeout=1500, coverage=cov)
        if res["violated"]:
            c.violation("model/" + res["violated"], "Economics.tla violates %s in %s" % (res["violated"], cfg),
                        {"kind": "model", "cfg": cfg, "tlc_tail": res["out"][-3000:]})
        if cov:
            V.require_coverage(res, ["AddBlock"], cfg)
        c.add_tlc(res, cfg)
        chains = V.tlc_json_lines(res["out"], "CHAIN")
        if len(chains) < 1000 or res["queue"] != 0:
            raise V.ToolError("%s: too few chains exported (%d) or search not exhausted" % (cfg, len(chains)))
        models.append((chains, wc, wf))
    if tier == "thorough":
        r2 = V.tlc(PID, "MC_Economics", "MC_Economics_23.cfg", workers=4, timeout=1500, coverage=False)
        if r2["violated"]:
            c.violation("model/" + r2["violated"], "Economics.tla violates %s in MC_Economics_23.cfg" % r2["violated"],
                        {"kind": "model", "cfg": "MC_Economics_23.cfg", "tlc_tail": r2["out"][-3000:]})
        c.add_tlc(r2, "MC_Economics_23.cfg")
    c.set("exhaustive", True)
    # self-test of the oracle: the walk as coded (clipping at block 1) must differ from the declarative rule
    r3 = V.tlc(PID, "MC_Economics", "MC_Economics_ascoded.cfg", workers=2, timeout=600, coverage=False)
    if r3["violated"] != "WalkOK":
        raise V.ToolError("oracle self-test failed: the proposer walk as coded does not violate WalkOK")
    c.set("selftest_walk_as_coded_rejected_by", r3["violated"])
    return models


def run(tier):
    c = V.Check(PID, "model_checking", tier)
    c.rule = ("cases = real chains built from a proposal/commit pattern (TLC's or random) and judged block by block; "
              "non-trivial = the chain commits at least one fee-paying transaction")
    c.assumptions = [
        "the fee / proposer structure of every replayed chain is judged by TLC (fees < 2^31 shannons at real magnitude); "
        "DAO field, cellbase amount, U = occupied(live cells) and conservation are judged by Apalache for a subset of the chains "
        "(Z3 needs seconds per block)",
        "cellbase amount is judged as primary + miner secondary (spec, from epoch and parent DAO field) + the calculator's fee "
        "components, which are judged separately against the earliest-proposer rule",
        "occupied capacity of a single cell is measured with CellOutput::occupied_capacity (the accounting over cells is what is judged)",
        "NervosDAO cells are typed with a script whose code always succeeds (the on-chain NervosDAO script and its lock-period rule "
        "are outside the node): what is judged is the node's own accounting - maximum withdraw, recorded fee, DAO field, conservation",
        "permanent difficulty (constant epoch length); epoch boundaries with remainder rewards are crossed (epoch length 4..9)",
    ]
    rnd = random.Random(V.seed())
    models = model_check(c, tier)
    pats = pattern_scenarios(models, rnd, 26 if tier == "quick" else 150)
    rands = [random_scenario(rnd, n, 2, 4, 4, 11) for n in range(6 if tier == "quick" else 40)]
    rands += [random_scenario(rnd, 100 + n, 1, 2, 3, 8) for n in range(4 if tier == "quick" else 30)]
    scenarios = pats + rands
    with open(os.path.join(V.workdir(PID), "scenarios.ndjson"), "w") as f:
        f.write("".join(json.dumps(s) + "\n" for s in scenarios))
    try:
        real = build_chains(scenarios)
    except AccountingRefusal as e:
        sc = [x for x in scenarios if x["id"] == e.scenario]
        c.violation("valid-history-refused/dao-accounting", "the DAO accounting of the real node fails on a block of the valid history %s: %s" % (
            e.scenario, e.error), {"kind": "chain", "scenario": sc[0] if sc else e.scenario, "error": e.error})
        return c.finish()
    real_classes = {}
    targets = judge_fees(c, scenarios, real, real_classes)
    for s in scenarios:
        c.case(s, any(b["commits"] for b in s["blocks"]))
    c.add("traces_validated_against_impl", len(scenarios))
    c.set("classes_on_real_chains_shifted_past_block_1", real_classes)
    c.set("targets_judged", targets)
    shares_not_block1 = sum(1 for s in scenarios for b in real[s["id"]]["blocks"][1:]
                            if b["n"] > s["wf"] + 1 and b["calc"]["target"] != 1 and b["calc"]["proposal_reward"] > 0)
    c.set("proposer_shares_for_targets_other_than_block_1", shares_not_block1)
    absent = [cl for cl in REQUIRED if real_classes.get(cl, 0) == 0]
    if shares_not_block1 < 5 or absent:
        raise V.ToolError("vacuous run: proposer shares outside block 1: %d; named classes absent from the real chains: %s" % (
            shares_not_block1, absent))
    # amounts at real magnitude for a subset
    amt = [s for s in scenarios if any(b["commits"] for b in s["blocks"])]
    amt = amt[:2] + rands[:1] if tier == "quick" else amt[:10] + rands[:6]
    seen, amt2 = set(), []
    for s in amt:
        if s["id"] not in seen:
            seen.add(s["id"])
            amt2.append(s)
    blocks = judge_amounts(c, amt2, real)
    c.set("blocks_judged_at_real_magnitude", blocks)
    # NervosDAO deposits / withdrawals: Dao.tla patterns + random life cycles on real chains
    dpats = dao_model_check(c, tier)
    dsc = dao_scenarios(dpats, rnd, tier)
    dreal = build_dao_chains(dsc)
    dstats = judge_dao(c, dsc, dreal)
    for s in dsc:
        c.case(s, any(k == "withdraw" for row in s["ops"] for k in row))
    c.add("traces_validated_against_impl", len(dsc))
    c.set("nervosdao", dstats)
    if not c.violations and (dstats["with_interest"] < 3 or dstats["over_by_one_refused"] < 3 or dstats["exact_maximum_accepted"] < 1
                             or dstats["combined_txs"] < 1 or dstats["deposit_and_withdraw_in_different_epochs"] < 1):
        raise V.ToolError("vacuous NervosDAO run: %s" % dstats)
    c.sample({"scenario": scenarios[0]})
    c.sample({"real_block": real[scenarios[0]["id"]]["blocks"][-1]})
    return c.finish()


def replay(path, tier):
    c = V.Check(PID, "model_checking", tier)
    r = json.load(open(path))
    p = r["payload"]
    if p["kind"] == "model":
        res = V.tlc(PID, "MC_Economics", p["cfg"], workers=4, coverage=False)
        if res["violated"]:
            c.violation("model/" + res["violated"], "model violation", p)
        return 1 if c.violations else 0
    s = p["scenario"]
    if p["kind"] == "dao":
        judge_dao(c, [s], build_dao_chains([s]))
        return 1 if c.violations else 0
    try:
        real = build_chains([s])
    except AccountingRefusal as e:
        c.violation("valid-history-refused/dao-accounting", "the DAO accounting of the real node fails on a block of the valid history: %s" % e.error, p)
        return 1
    judge_fees(c, [s], real)
    judge_amounts(c, [s], real)
    return 1 if c.violations else 0
