"""C16 (b): compact-block reconstruction -- CompactBlock.tla model-checked exhaustively, every terminal case replayed
on the real Relayer::reconstruct_block and the relay verifiers (CompactBlockVerifier, BlockTransactionsVerifier,
BlockUnclesVerifier); every distinct compact block + local state also goes, as a RelayMessage, through the real protocol handler
(Relayer::received -> CompactBlockProcess::execute) with a recording network context: the GetBlockTransactions request the peer
gets must name exactly the positions the specification reports missing, and the block is handed to the chain exactly when the
specification reconstructs it."""
import json
import os

import vcheck as V
import c16

ACTIONS = ["ChooseBlock", "PeerSends", "LocalState", "Verify", "Reconstruct1", "PeerAnswers", "VerifyAnswer", "Reconstruct2"]


def run_part(c, tier):
    # oracle self-test: comparing only the transactions root must violate NeverADifferentBlock
    res = V.tlc(c16.PID, "MC_CompactBlock", "MC_CompactBlock_buggy.cfg", workers=4, timeout=900)
    if res["violated"] != "NeverADifferentBlock":
        raise V.ToolError("oracle self-test failed: Buggy=TRUE does not violate NeverADifferentBlock (%s)" % res["violated"])
    # exhaustive model checking; the emitting run uses one worker (several workers interleave printed lines)
    out = {"selftest_tx_root_only_rejected_by": res["violated"]}
    cfg = "MC_CompactBlock_4.cfg"          # n <= 4 in both tiers (101 k states, 34 k terminal cases, seconds)
    res = V.tlc(c16.PID, "MC_CompactBlock", cfg, workers=1, timeout=1700, xmx="8g")
    if res["violated"]:
        c.violation("model/" + res["violated"], "CompactBlock.tla violates %s (%s)" % (res["violated"], cfg),
                    {"kind": "model", "module": "MC_CompactBlock", "cfg": cfg, "tlc_tail": res["out"][-3000:]})
        return out
    V.require_coverage(res, ACTIONS, cfg)
    c.add_tlc(res, cfg)
    cases = V.tlc_json_lines(res["out"], "CASE")
    for i, k in enumerate(cases):
        k["id"] = i
    if len(cases) < 30000:
        raise V.ToolError("too few reconstruction cases exported: %d" % len(cases))
    summ, _ = c16.replay_recon(c, cases)
    t = summ["tally"]
    need = ["r1:Block", "r1:Missing", "r1:Collided", "r1:Error", "r2:Block", "verdict:reject", "answer:honest:ok", "answer:wrong-tx:reject",
            "answer:wrong-uncle:reject", "process:Block", "process:Missing", "process:rejected"]
    missing = [k for k in need if t.get(k, 0) == 0]
    if summ["cases"] != len(cases) or missing:
        raise V.ToolError("vacuous reconstruction replay: %s missing %s" % (summ, missing))
    for k in cases:
        c.case(["recon", {x: k[x] for x in k if x != "id"}], k["tamper"] != "none" or k["r1"]["kind"] != "Block")
    c.add("traces_validated_against_impl", summ["cases"])
    for k in [x for x in cases if x["tamper"] == "proposals" and x["r1"]["kind"] == "Refused"][:1] + \
             [x for x in cases if x["ans"]["kind"] == "honest" and x["r2"]["kind"] == "Block"][:1]:
        c.sample({"reconstruction_case": k})
    out.update({"cases": summ["cases"], "states": res["distinct"], "cfg": cfg, "tally": t})
    return out
