"""C04 — a transaction is accepted iff its inputs are live and unspent and all transaction rules hold.

1. TLC checks TxRules.tla exhaustively on a small configuration: the context's own transactions are valid where they are
   committed, and PoolSound — whatever the pool position (Submitted => tip+1+w_close) must accept stays valid in every
   later block that could commit it.
2. TLC (simulation, VERIF_SEED) grows random ledger contexts (timestamps, which palette transactions are committed
   where) and prints, for every prefix, the probe transactions (every rule at its boundary and one step on each side)
   with the verdict of the SPEC for a commit in the next block and for admission to the pool.
3. R: `c04 run` rebuilds each context on real nodes and judges every probe three ways (inside a block through the
   chain service, test_accept_tx, submit_local_tx) on a node that followed the straight chain and on a node that came
   through detours (reorgs that spent the probes' cells); everything is compared here with the spec, and straight with
   detour (ContextOnly).
"""
import collections
import concurrent.futures
import json
import os

import vcheck as V

PID = "C04"
CRASHED = []
ACTIONS = ["ChooseTs", "ChooseTxs"]
SIMS = ["MC_TxRules_simA.cfg", "MC_TxRules_simB.cfg"]

B = lambda fam, v, lab=None: (lambda p: p["fam"] == fam and p["bv"] == v and (lab is None or p["lab"] == lab))
PL = lambda fam, v, lab=None: (lambda p: p["fam"] == fam and p["pv"] == v and (lab is None or p["lab"] == lab))
REQUIRED = [
    ("live input", B("input", "accept", "g5")), ("spent input", lambda p: p["fam"] == "input" and p["brules"] == ["input_live"] and p["lab"] in ("g1", "x1")),
    ("unknown input", B("input", "reject", "nowhere")), ("duplicate input", B("input", "reject", "duplicate")),
    ("input made earlier in the block / by a pooled ancestor", B("chain", "accept", "made-earlier")),
    ("input used earlier", B("chain", "reject", "used-earlier")), ("input made later", B("chain", "reject", "made-later")),
    ("live dep", B("dep", "accept", "g7")), ("spent dep", lambda p: p["fam"] == "dep" and p["brules"] == ["dep_live"] and p["lab"] in ("g1", "x1")),
    ("dep made earlier", B("dep", "accept", "made-earlier")), ("dep used earlier", B("dep", "reject", "used-earlier")),
    ("dep = own input", B("dep", "accept", "own-input")),
    ("dep group ok", B("depgroup", "accept")), ("dep group with a dead member", lambda p: p["fam"] == "depgroup" and p["brules"] == ["dep_group"]),
    ("header dep on the main chain", B("hdep", "accept", "main")), ("header dep on a side block", B("hdep", "reject", "side")),
    ("unknown header dep", B("hdep", "reject", "unknown")),
    ("zero fee", B("capacity", "accept", "zero")), ("outputs exceed inputs", B("capacity", "reject", "over")),
    ("capacity = occupied", B("occupied", "accept", "exact")), ("capacity = occupied - 1", B("occupied", "reject", "short")),
    ("since flags", B("since_flags", "reject")), ("whole-epoch since value", B("since_flags", "accept", "epoch-length0")),
    ("abs number met (block)", B("since_abs_number", "accept")), ("abs number unmet (block)", B("since_abs_number", "reject")),
    ("abs number met (pool)", PL("since_abs_number", "accept")), ("abs number unmet (pool)", PL("since_abs_number", "reject")),
    ("abs epoch met (block)", B("since_abs_epoch", "accept")), ("abs epoch unmet (block)", B("since_abs_epoch", "reject")),
    ("abs epoch met (pool)", PL("since_abs_epoch", "accept")), ("abs epoch unmet (pool)", PL("since_abs_epoch", "reject")),
    ("abs time met (block)", B("since_abs_time", "accept")), ("abs time unmet (block)", B("since_abs_time", "reject")),
    ("abs time met (pool)", PL("since_abs_time", "accept")), ("abs time unmet (pool)", PL("since_abs_time", "reject")),
    ("rel number met (block)", B("since_rel_number", "accept", "born")), ("rel number unmet (block)", B("since_rel_number", "reject", "born")),
    ("rel number met (pool)", PL("since_rel_number", "accept", "born")), ("rel number unmet (pool)", PL("since_rel_number", "reject", "born")),
    ("rel number on a cell of the same block", B("since_rel_number", "accept", "same-block")),
    ("rel number unmet on a cell of the same block", B("since_rel_number", "reject", "same-block")),
    ("rel epoch met (block)", B("since_rel_epoch", "accept", "born")), ("rel epoch unmet (block)", B("since_rel_epoch", "reject", "born")),
    ("rel epoch met (pool)", PL("since_rel_epoch", "accept")), ("rel epoch unmet (pool)", PL("since_rel_epoch", "reject")),
    ("rel time met (block)", B("since_rel_time", "accept")), ("rel time unmet (block)", B("since_rel_time", "reject")),
    ("rel time met (pool)", PL("since_rel_time", "accept")), ("rel time unmet (pool)", PL("since_rel_time", "reject")),
    ("cellbase input mature (block)", B("maturity", "accept", "input")), ("cellbase input immature (block)", B("maturity", "reject", "input")),
    ("cellbase dep mature (block)", B("maturity", "accept", "dep")), ("cellbase dep immature (block)", B("maturity", "reject", "dep")),
    ("cellbase mature (pool)", PL("maturity", "accept")),
    ("script fails", lambda p: p["fam"] == "script" and p["brules"] == ["script"]),
    ("script runs out of cycles", lambda p: p["fam"] == "script" and p["brules"] == ["cycles"]),
    ("cycles at/below the limit", lambda p: p["fam"] == "cycles" and p["bv"] == "accept" and len(p["tx"]["ins"]) >= 2),
    ("cycles over the limit", lambda p: p["fam"] == "cycles" and p["brules"] == ["cycles"]),
    ("output type script succeeds", B("typescript", "accept", "out-ok")),
    ("output type script fails", lambda p: p["fam"] == "typescript" and p["lab"] == "out-fail" and p["brules"] == ["script"]),
    ("output type script runs out of cycles", lambda p: p["fam"] == "typescript" and p["lab"] == "out-loop" and p["brules"] == ["cycles"]),
    ("input with a type script", B("typescript", "accept", "in-ok")),
    ("type group of an output fills the cycle limit", B("typecycles", "accept", "out")),
    ("type group of an output exceeds the cycle limit", lambda p: p["fam"] == "typecycles" and p["lab"] == "out" and p["brules"] == ["cycles"]),
    ("type group of an input fills the cycle limit", B("typecycles", "accept", "in")),
    ("type group of an input exceeds the cycle limit", lambda p: p["fam"] == "typecycles" and p["lab"] == "in" and p["brules"] == ["cycles"]),
    ("type groups of an input and an output are two groups", lambda p: p["fam"] == "typecycles" and p["lab"] == "in-and-out" and p["brules"] == ["cycles"]),
]


def gen_contexts(c, n_per_cfg):
    ctxs = []
    for k, cfg in enumerate(SIMS):
        res = V.tlc(PID, "MC_TxRules", cfg, workers=1, simulate="num=%d" % n_per_cfg, depth=100, timeout=900,
                    seed_=V.seed() * 10 + k, tag="sim%d" % k)
        got = V.tlc_json_lines(res["out"], "CTX")
        if len(got) < n_per_cfg:
            V.log(res["out"][-3000:])
            raise V.ToolError("simulation %s produced %d of %d contexts" % (cfg, len(got), n_per_cfg))
        m = V.SIM_RE.search(res["out"])
        c.add("simulated_states", int(m.group(1)) if m else 0)
        for g in got:
            g["cfg"] = cfg
        ctxs += got
    return ctxs


def run_one(path, i, seed_):
    rc, out = V.ckbv("c04", ["run", "--in", path, "--only", i, "--seed", seed_], timeout=1200)
    return i, rc, out


def replay_contexts(ctxs, path):
    with open(path, "w") as f:
        for x in ctxs:
            f.write(json.dumps(x) + "\n")
    V.build_harness("c04")
    results = {}
    with concurrent.futures.ThreadPoolExecutor(max_workers=4) as ex:
        for i, rc, out in ex.map(lambda i: run_one(path, i, V.seed()), range(len(ctxs))):
            lines = V.parse_ndjson(out)
            if rc != 0 or not any("summary" in x for x in lines):
                # a crash inside the code under test is data: judge what was observed first, complain afterwards
                V.log(out[-1500:])
                CRASHED.append("c04 run failed on context %d rc=%d" % (i, rc))
            results[i] = lines
    return results


def short_ctx(ctx):
    return {"cfg": ctx["cfg"], "params": ctx["params"], "ts": ctx["ts"], "sched": ctx["sched"]}


def judge(c, ctxs, results):
    stats = collections.Counter()
    covered = collections.Counter()
    for i, ctx in enumerate(ctxs):
        for line in results[i]:
            if "context_block" in line:
                o = line["context_block"]
                stats["context_blocks"] += 1
                if not o["attached"]:
                    c.violation("block/valid-rejected/context-block", "block %d of the context (palette transactions the spec calls valid) "
                                "was refused: %s" % (o["m"], o["err"]), {"full_ctx": ctx, "observed": o})
            elif "detour" in line:
                o = line["detour"]
                stats["detours"] += 1
                if not all(o["attached"]):
                    # the detour block spends g5 and g7, which no block of the main chain ever touches: valid by the spec
                    c.violation("context-only/detour-block-refused/%s" % errclass("".join(o["err"])),
                                "a block spending cells that are live in this ledger context was refused on the node that had been "
                                "through a reorg: %s" % o, {"full_ctx": ctx, "observed": o})
            elif "detour_end" in line:
                o = line["detour_end"]
                if not o["back_on_main"]:
                    c.violation("context-only/heavier-main-chain-not-adopted", "the detour node did not reorganise back: %s" % o,
                                {"full_ctx": ctx, "observed": o})
                elif o["pool_len"] != 0:
                    raise V.ToolError("detour node's pool not emptied: %s" % o)
                else:
                    stats["detours_back"] += 1
            elif "staged" in line:
                # probes whose id the chain proposed before they reached the pool: stage gap (earliest commit tip + w_close),
                # stage proposed (next block)
                for sp, r in zip(ctx.get("staged", []), line["staged"]["results"]):
                    if r is None:
                        raise V.ToolError("a staged probe was not judged")
                    stats["staged_%s_%s" % (sp["stage"], sp["pv"])] += 1
                    payload = {"ctx": short_ctx(ctx), "staged": sp, "observed": r, "full_ctx": ctx}
                    for j, ok, err in (("pool-test", r["test_accept"], r["test_err"]), ("pool-submit", r["submit"], r["submit_err"])):
                        c.case({"cfg": ctx["cfg"], "ts": ctx["ts"], "sched": ctx["sched"], "tx": sp["tx"], "stage": sp["stage"], "judge": j}, True)
                        if sp["pv"] == "accept" and not ok:
                            c.violation("%s/valid-rejected/stage-%s/%s/%s" % (j, sp["stage"], sp["lab"], errclass(err)),
                                        "spec: valid for the commit position of a transaction at stage %s; refused: %s" % (sp["stage"], err), payload)
                        elif sp["pv"] == "reject" and ok:
                            c.violation("%s/invalid-accepted/stage-%s/%s" % (j, sp["stage"], "+".join(sp["prules"])),
                                        "spec: breaks %s at the commit position of stage %s; accepted" % (sp["prules"], sp["stage"]), payload)
            elif "probe" in line:
                o = line["probe"]
                p = ctx["probes"][o["m"]][o["i"]]
                for n, (desc, pred) in enumerate(REQUIRED):
                    if pred(p):
                        covered[n] += 1
                for node in ("S", "D"):
                    r = o[node]
                    if r is None:
                        continue
                    stats["probes_" + node] += 1
                    if not r["pool_clean"]:
                        raise V.ToolError("pool not restored after a probe: %s %s" % (p["fam"], p["lab"]))
                    got = {"block": "accept" if r["block"] else "reject", "pool-test": "accept" if r["test_accept"] else "reject",
                           "pool-submit": "accept" if r["submit"] else "reject"}
                    want = {"block": p["bv"], "pool-test": p["pv"], "pool-submit": p["pv"]}
                    errs = {"block": r["block_err"], "pool-test": r["test_err"], "pool-submit": r["submit_err"]}
                    payload = {"ctx": short_ctx(ctx), "m": o["m"], "node": node, "probe": p, "observed": r, "full_ctx": ctx}
                    for j in ("block", "pool-test", "pool-submit"):
                        nontrivial = want[j] != "accept" or p["fam"] not in ("input", "capacity", "occupied")
                        c.case({"cfg": ctx["cfg"], "ts": ctx["ts"][:o["m"]], "sched": ctx["sched"], "tx": p["tx"], "pre": p["pre"], "judge": j, "node": node}, nontrivial)
                        stats["%s_%s" % (j, want[j])] += 1
                        if want[j] == "accept" and got[j] != "accept":
                            c.violation("%s/valid-rejected/%s/%s/%s" % (j, p["fam"], p["lab"], errclass(errs[j])),
                                        "spec: valid (%s %s) for %s at prefix %d; refused: %s" % (p["fam"], p["lab"], j, o["m"], errs[j]), payload)
                        elif want[j] == "reject" and got[j] != "reject":
                            rules = p["brules"] if j == "block" else p["prules"]
                            c.violation("%s/invalid-accepted/%s/%s" % (j, "+".join(rules), p["lab"]),
                                        "spec: breaks %s; accepted by %s at prefix %d" % (rules, j, o["m"]), payload)
                    if not r["block_unchanged"]:
                        c.violation("block/refused-but-tip-changed/%s" % p["fam"], "tip differs after a refused block", payload)
                    if got["pool-test"] != got["pool-submit"]:
                        c.violation("pool/test-accept-differs-from-submit/%s/%s" % (p["fam"], p["lab"]),
                                    "test_accept_tx=%s submit_local_tx=%s" % (got["pool-test"], got["pool-submit"]), payload)
                if o["D"] is not None:
                    stats["context_only_pairs"] += 1
                    for k, j in (("block", "block"), ("test_accept", "pool-test"), ("submit", "pool-submit")):
                        if o["S"][k] != o["D"][k]:
                            c.violation("context-only/%s/%s/%s" % (j, p["fam"], p["lab"]),
                                        "same ledger context, different verdict: straight=%s detour=%s" % (o["S"][k], o["D"][k]),
                                        {"ctx": short_ctx(ctx), "m": o["m"], "probe": p, "observed": o, "full_ctx": ctx})
    return stats, covered


def errclass(e):
    import re
    m = re.findall(r"[A-Za-z]+", e)
    return "-".join(m[:3]) if m else "none"


def run(tier):
    c = V.Check(PID, "model_checking", tier)
    c.rule = ("cases = (ledger context prefix, probe transaction, judge in {block, test_accept_tx, submit_local_tx}, straight/detour "
              "node); non-trivial = the spec rejects, or the transaction sits on the accepting side of a context-dependent boundary")
    c.assumptions = [
        "scripts are always-success / always-failure / infinite-loop binaries, as lock of inputs and as type of inputs / outputs; no DAO cells",
        "the in-block judge runs every verifier except the two-phase-commit window (C03), so that a probe can be committed at any position",
        "pool policy is neutralised (min fee rate 0, RBF off); the pool's content is part of the context (the detour node's re-added "
        "transaction is removed before judging)",
        "pool position for epoch-based rules: the code uses the tip's epoch, the earliest commit lies 1+w_close blocks later: "
        "between the two the spec says 'either'; same for an even-sized median sample and for a relative lock on a pooled ancestor's output",
    ]
    cfgs = ["MC_TxRules_ex3.cfg"] if tier == "quick" else ["MC_TxRules_ex3.cfg", "MC_TxRules_ex4.cfg"]
    for cfg in cfgs:
        res = V.tlc(PID, "MC_TxRules", cfg, workers=4, timeout=1800, xmx="6g")
        if res["violated"]:
            c.violation("model/" + res["violated"], "TxRules.tla violates %s in %s" % (res["violated"], cfg),
                        {"kind": "model", "cfg": cfg, "tlc_tail": res["out"][-3000:]})
        V.require_coverage(res, ACTIONS, cfg)
        c.add_tlc(res, cfg)
    c.set("exhaustive", False)
    n_per = 4 if tier == "quick" else 16
    ctxs = gen_contexts(c, n_per)
    path = os.path.join(V.workdir(PID), "ctxs.ndjson")
    results = replay_contexts(ctxs, path)
    stats, covered = judge(c, ctxs, results)
    c.set("replay", dict(stats))
    c.add("traces_validated_against_impl", len(ctxs))
    c.set("rule_family_coverage", {REQUIRED[n][0]: covered[n] for n in range(len(REQUIRED))})
    ctx = ctxs[0]
    c.sample({"context": short_ctx(ctx), "probes_at_tip": [{k: p[k] for k in ("fam", "lab", "pre", "tx", "bv", "pv")} for p in ctx["probes"][-1][:3]]})
    c.sample({"context": short_ctx(ctxs[-1]), "probes_at_tip": [{k: p[k] for k in ("fam", "lab", "bv", "brules", "pv", "prules")} for p in ctxs[-1]["probes"][-1][40:46]]})
    if not c.violations:
        if CRASHED:
            raise V.ToolError("; ".join(CRASHED))
        missing = [REQUIRED[n][0] for n in range(len(REQUIRED)) if covered[n] == 0]
        if missing:
            raise V.ToolError("vacuous run: rule boundaries never exercised: %s" % missing)
        for k in ("staged_gap_accept", "staged_gap_reject", "staged_proposed_accept", "staged_proposed_reject"):
            if stats[k] == 0:
                raise V.ToolError("vacuous run: no probe judged at the pool stage %s" % k)
        if stats["detours_back"] < len(ctxs) or stats["context_only_pairs"] < 100:
            raise V.ToolError("vacuous run: ContextOnly not exercised: %s" % dict(stats))
    return c.finish()


def replay(path, tier):
    c = V.Check(PID, "model_checking", tier)
    r = json.load(open(path))
    p = r["payload"]
    if p.get("kind") == "model":
        res = V.tlc(PID, "MC_TxRules", p["cfg"], workers=8)
        if res["violated"]:
            c.violation("model/" + res["violated"], "model violation", p)
        return 1 if c.violations else 0
    ctx = p["full_ctx"]
    f = os.path.join(V.workdir(PID), "replay_ctx.ndjson")
    results = replay_contexts([ctx], f)
    judge(c, [ctx], results)
    return 1 if c.violations else 0
