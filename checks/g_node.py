"""Growth item "Node" (DESIGN.md 3.7 (1)): the composition spec/Node.tla (ChainState + ProposalWindow + TxPool/Template +
MMR composed by INSTANCE with refinement mappings, plus the cross-module invariants no single property states) and its
binding to ONE real node (harness g_node: long random whole-node histories over real process restarts).

Attached to checks/c12.py (run_growth_node); evidence under coverage["growth_node"]; violations are reported under C12
with keys growth-node/...  A listed finding of C11 / C12 that manifests inside a history is honoured: it is printed as
KNOWN-FINDING, the pool side of that history is not compared from that record on (Trace_Node.PoolUntil), the chain side
still is, to the end.
"""
import concurrent.futures as cf
import json
import os
import re
import threading

import vcheck as V
import c11 as C11

PID = "C12"
BIG = 10 ** 9
ACTIONS = ["MCMineTpl", "MCForeign", "MCDeliver", "MCSubmit", "MCProcess"]
MC_INV = ["NoDoubleSpend", "LinksExact", "AggregatesExact", "EdgesExact", "CountsExact", "AncestorLimit", "NoCommitted",
          "NoDeadOrUnknown", "NoDetachedHeaderDep", "DetachedReadmitted", "StageMatchesWindow", "TemplateSound",
          "XPoolChainIsMain", "XStageInWindow", "XStageInPublishedView", "XWindowsAgree", "XPoolResolvesInStore",
          "XNoPooledTxInfo", "XTemplateFromPool", "XTemplateContent", "XExtIsMainRoot", "XServedRoot", "XMmrOfMain",
          "XViewIsWindow", "XReplay"]
# order matters: the invariants the C11 / C12 signatures know come first, so that a listed finding is recognised
TRACE_INV = ["P_NoAnomaly", "P_NoDoubleSpend", "P_LinksExact", "P_AggregatesExact", "P_EdgesExact", "P_CountsExact",
             "P_AncestorLimit", "P_RbfRule", "P_NoCommitted", "P_NoDeadOrUnknown", "P_NoDetachedHeaderDep",
             "P_DetachedReadmitted", "P_StageMatchesWindow", "P_XPoolChainIsMain", "P_XStageInWindow",
             "P_XStageInPublishedView", "P_XWindowsAgree", "P_XPoolResolvesInStore", "P_XNoPooledTxInfo",
             "P_XTemplateFromPool", "P_XTemplateContent", "XExtIsMainRoot", "XServedRoot", "XMmrOfMain", "XViewIsWindow"]
VACUITY = ["VacNoReadd", "VacNoProposedEntry", "VacNoStaleTail", "VacTemplateNeverCommits"]
MUTANTS = {"keep_orphans": "XPoolResolvesInStore", "no_reload": "XViewIsWindow", "silent_remove": "XTemplateFromPool"}
_LOCK = threading.Lock()


_T0 = [None]


def lap(what):
    import time
    if _T0[0] is None:
        _T0[0] = time.time()
    V.log("[C12 growth-node] %s at %.0fs" % (what, time.time() - _T0[0]))


def _wd(sub):
    return V.workdir(PID, os.path.join("growth_node", sub))


def trace_cfg(path, pool_until=BIG):
    with open(path, "w") as f:
        f.write("SPECIFICATION NTSpec\nCONSTANTS\n Txs <- TrTxs\n Ins <- TrIns\n Deps <- TrDeps\n HDeps <- TrHDeps\n Fee <- TrFee\n"
                " Size <- TrSize\n Cycles <- TrCycles\n Genesis <- TrGenesis\n CsTx <- TrCsTx\n CsGenesis <- TrCsGenesis\n"
                " TxNo <- TrNo\n GNo <- TrGNo\n L <- TrL\n CbBase = 1000\n WClose <- TrClose\n WFar <- TrFar\n Mut = \"none\"\n"
                " PoolUntil = %d\n" % pool_until)
        for i in TRACE_INV:
            f.write("INVARIANT %s\n" % i)
        f.write("POSTCONDITION NAccepted\nCHECK_DEADLOCK FALSE\n")


def write_trace(path, doc, events=None):
    with open(path, "w") as f:
        f.write(json.dumps({"ev": "Universe", "txs": doc["universe"], "genesis": doc["genesis"], "ngen": doc["ngen"]}) + "\n")
        for e in (events if events is not None else doc["events"]):
            f.write(json.dumps(e) + "\n")


def _as_pool_events(events):
    """The pool side of a node history in the vocabulary of checks/c11.py / c12.py (their signature helpers)."""
    out = []
    for e in events:
        if e["ev"] in ("Mint", "Reset"):
            if e["ev"] == "Reset":
                out.append(e)
            continue
        x = dict(e)
        if e["ev"] in ("Block", "Truncate"):
            x["ev"] = "Reorg"
        out.append(x)
    return out


def signature(doc, events, rec_idx, violated, obs_mismatch):
    """rec_idx: index into `events` of the record that was rejected / after which an invariant failed."""
    ev = events[rec_idx]
    kind = ev["ev"]
    if obs_mismatch:
        return "growth-node/store/%s/%s" % (kind, "+".join(sorted(obs_mismatch))), None
    inv = violated[2:] if violated and violated.startswith("P_") else violated
    frag = _as_pool_events(events[:rec_idx + 1])
    prev = frag[-2] if len(frag) >= 2 and "st" in frag[-2] else None
    conf = frag[0].get("conf", {}) if frag else {}
    if kind in ("Mint", "Reset") or "st" not in ev:
        return "growth-node/%s/%s" % (inv or "not-a-behaviour", kind), None
    # a listed C12 / C11 pattern?
    import c12 as C12
    try:
        k12 = C12.signature(doc["universe"], prev, frag[-1], inv, conf, frag)
    except (KeyError, IndexError, TypeError):
        k12 = None
    try:
        k11 = C11.signature(doc["universe"], prev, frag[-1], inv, conf.get("maxAnc", 10 ** 9))
    except (KeyError, IndexError, TypeError):
        k11 = None
    known = V.known_findings()
    if k12 and ("C12", k12) in known:
        return k12, "C12"
    if k11 and ("C11", k11) in known:
        return k11, "C11"
    return "growth-node/%s/%s" % (inv or "not-a-behaviour", kind), None


def _run_tlc_trace(tag, path, pool_until):
    cfg = os.path.join(_wd("traces"), tag + ".cfg")
    trace_cfg(cfg, pool_until)
    return V.validate_trace(PID, "Trace_Node", cfg, path, tag="gn_" + tag, timeout=1500, xmx="5g")


def _rejected_record(res):
    """1-based index into Rec of the record that was rejected (no step) or after which an invariant failed."""
    out = res["out"]
    if res["violated"]:
        ls = re.findall(r"^/\\ l = (\d+)", out, re.M)
        if not ls:
            return None
        return int(ls[-1]) - 1
    m = re.search(r'<<\s*"TRACE-REJECTED",\s*(\d+),', out)
    return int(m.group(1)) if m else None


def validate(c, tag, doc, meta, stats):
    """Validate one whole-node history. Returns True when nothing but listed findings was met."""
    events = doc["events"]
    path = os.path.join(_wd("traces"), tag + ".ndjson")
    write_trace(path, doc)
    until = BIG
    clean = True
    for _attempt in range(4):
        ok, res = _run_tlc_trace(tag, path, until)
        if ok:
            stats["events"] += len(events)
            if until != BIG:
                stats["events_chain_side_only"] += max(0, len(events) + 2 - until)
            else:
                stats["uncut"].append(tag)
            return clean
        r = _rejected_record(res)
        if r is None:
            V.log(res["out"][-3000:])
            raise V.ToolError("trace validation of %s ended without a verdict" % tag)
        idx = max(0, min(r - 2, len(events) - 1))               # Rec[1] = universe, Rec[2] = events[0]
        mism = re.search(r'<<\s*"OBS-MISMATCH",\s*\d+,\s*"(\w[\w-]*)",\s*\{([^}]*)\}', res["out"])
        cols = [x.strip().strip('"') for x in mism.group(2).split(",")] if mism else None
        chain_side = bool(cols) or (res["violated"] and not res["violated"].startswith("P_"))
        if not chain_side and not res["violated"] and until > r:
            # no step possible: is it the pool side? compare the chain side only from this record on
            ok2, res2 = _run_tlc_trace(tag + "_probe", path, r)
            r2 = None if ok2 else _rejected_record(res2)
            if not ok2 and r2 == r and not res2["violated"]:
                chain_side = True
        key, listed_under = signature(doc, events, idx, res["violated"], cols if chain_side and cols else None)
        if chain_side and not cols and not res["violated"]:
            key = "growth-node/chain-side/not-a-behaviour/%s" % events[idx]["ev"]
        text = "history %s: record %d (%s) %s" % (tag, idx + 1, events[idx]["ev"],
                                                   ("violates " + res["violated"]) if res["violated"] else
                                                   ("store columns differ: %s" % cols if cols else "is not a step Node.tla allows"))
        payload = {"kind": "growth_node", "universe": doc["universe"], "genesis": doc["genesis"], "ngen": doc["ngen"],
                   "events": events[:idx + 1], "meta": meta, "violated": res["violated"], "tlc_tail": res["out"][-1500:]}
        with _LOCK:
            if listed_under == "C12":
                c.violation(key, text, payload)                 # listed: printed as KNOWN-FINDING, does not fail
            elif listed_under == "C11":
                hits = c.known_hits
                if key not in hits:
                    V.log("KNOWN-FINDING: property=C11 %s [%s] (met by the C12 growth check)" % (c.known[("C11", key)], key))
                hits[key] = hits.get(key, 0) + 1
            else:
                c.violation(key, text, payload)
                clean = False
        stats["truncated"] += 1
        if chain_side or until <= r:
            # nothing more can be compared in this history
            stats["events"] += idx
            return clean
        until = r                                               # pool side off from the offending record on
    stats["events"] += len(events)
    return clean


def run_history(seed, steps, profile, n):
    out = os.path.join(_wd("hist"), "node_%d.json" % n)
    rc, o = V.ckbv("g_node", ["random", "--seed", seed, "--steps", steps, "--profile", profile, "--out", out], timeout=1700)
    if rc != 0 or not os.path.exists(out):
        V.log(o[-3000:])
        raise V.ToolError("g_node random failed rc=%d" % rc)
    return json.loads(open(out).readline())


def phase_mc(c, tier, g):
    if tier == "quick":
        cfgs = ["MC_Node_q.cfg"]
    else:
        # chain universe with truncation / restart / removal / lagging submissions (3 blocks), and 4 blocks in the chain
        # or in the conflict universe (alternating with the seed)
        cfgs = ["MC_Node_3x.cfg", "MC_Node_4.cfg" if V.seed() % 2 else "MC_Node_4c.cfg"]
    with cf.ThreadPoolExecutor(max_workers=3) as ex:
        # no per-action coverage statistics: they cost a factor of 6 on this model (1 M states would take an hour); the
        # vacuity guards are the state counts and, in the thorough tier, the reachability probes that must be violated
        ress = list(ex.map(lambda x: V.tlc(PID, "MC_Node", x, workers=3, timeout=1700, xmx="5g", coverage=False), cfgs))
    g["mc"] = []
    for cfg, res in zip(cfgs, ress):
        if res["violated"]:
            c.violation("growth-node/model/" + res["violated"], "MC_Node violates %s in %s" % (res["violated"], cfg),
                        {"kind": "growth_node_model", "cfg": cfg, "tlc_tail": res["out"][-3000:]})
        if res["distinct"] < (20000 if tier == "quick" else 400000):
            raise V.ToolError("vacuous model run (%s): %d states" % (cfg, res["distinct"]))
        c.add_tlc(res, "growth:" + cfg)
        g["mc"].append({"cfg": cfg, "distinct": res["distinct"], "generated": res["generated"], "wall_s": res["wall_s"]})
    g["composed_invariants"] = MC_INV
    lap("model checking")
    if tier == "thorough":
        # vacuity probes (each must be violated) and self-tests of the composed invariants
        jobs = [("MC_Node_%s.cfg" % v.lower(), v) for v in VACUITY] + [("MC_Node_mut_%s.cfg" % m, inv) for m, inv in MUTANTS.items()]
        with cf.ThreadPoolExecutor(max_workers=3) as ex:
            rs = list(ex.map(lambda j: V.tlc(PID, "MC_Node", j[0], workers=3, timeout=1500, coverage=False, xmx="5g"), jobs))
        for (cfg, inv), r in zip(jobs, rs):
            if r["violated"] != inv:
                raise V.ToolError("growth-node self-test failed: %s -> %s (expected %s)" % (cfg, r["violated"], inv))
        g["reachability_probes_violated"] = VACUITY
        g["selftest_mutants_rejected_by"] = dict(MUTANTS)
        lap("model self-tests")


def selftest_corruptions(doc, g):
    """Oracle self-test: a recorded history with ONE projection falsified must be rejected, by the invariant that owns it."""
    import copy
    evs = doc["events"]
    cases = []
    idx = [i for i, e in enumerate(evs) if e["ev"] == "Block" and len(e.get("croot", [])) >= 2 and not e.get("desync")]
    if idx:
        d = copy.deepcopy(evs)
        d[idx[-1]]["croot"] = d[idx[-1]]["croot"][:-1]
        cases.append(("served-root", d, "XServedRoot", None))
    idx = [i for i, e in enumerate(evs) if e["ev"] != "Mint" and e["ev"] != "Reset" and len(e["obs"]["cells"]) > 3]
    if idx:
        d = copy.deepcopy(evs)
        d[idx[-1]]["obs"]["cells"].pop()
        cases.append(("cell-row-missing", d, None, "cells"))
    idx = [i for i, e in enumerate(evs) if e["ev"] not in ("Mint", "Reset") and e["pv"]["set"]]
    if idx:
        d = copy.deepcopy(evs)
        d[idx[len(idx) // 2]]["pv"]["set"].pop()
        cases.append(("proposal-view", d, "XViewIsWindow", None))
    idx = [i for i, e in enumerate(evs) if e["ev"] == "Block" and not e.get("desync") and (e["detach"] > 0 or e["attach"])
           and any(v == "proposed" for v in e["st"].values()) and e["tpl"]["parent"] >= 0]
    if idx:
        d = copy.deepcopy(evs)
        e = d[idx[-1]]
        e["tpl"]["props"] = sorted(set(e["tpl"]["props"]) | {t for t, v in e["st"].items() if v == "proposed"})
        cases.append(("template-proposes-proposed-entry", d, "P_XTemplateFromPool", None))
    idx = [i for i, e in enumerate(evs) if e["ev"] not in ("Mint", "Reset") and not e.get("desync") and any(v == "gap" for v in e["st"].values())]
    if idx:
        d = copy.deepcopy(evs)
        e = d[idx[-1]]
        t = next(t for t, v in e["st"].items() if v == "gap")
        e["st"][t] = "pending"
        e["cnt"]["gap"] -= 1
        e["cnt"]["pending"] += 1
        cases.append(("stage", d, "P_StageMatchesWindow", None))
    out = {}
    for name, d, inv, col in cases:
        path = os.path.join(_wd("traces"), "selftest_%s.ndjson" % name)
        write_trace(path, doc, d)
        ok, res = _run_tlc_trace("selftest_" + name, path, BIG)
        cols = re.search(r'<<\s*"OBS-MISMATCH",\s*\d+,\s*"(\w[\w-]*)",\s*\{([^}]*)\}', res["out"])
        got = res["violated"] or (cols.group(2).replace('"', "").strip() if cols else None)
        if ok or (inv and res["violated"] != inv) or (col and not (cols and col in cols.group(2))):
            raise V.ToolError("growth-node oracle self-test failed: corruption %s -> accepted=%s, rejected by %s" % (name, ok, got))
        out[name] = got
    if len(out) < 4:
        raise V.ToolError("growth-node oracle self-test: only %s could be placed" % list(out))
    g["selftest_corrupted_histories_rejected_by"] = out


def run_growth_node(c, tier):
    g = {}
    V.build_harness("g_node")
    lap("start")
    nh, steps = (2, 32) if tier == "quick" else (12, 100)
    with cf.ThreadPoolExecutor(max_workers=1) as bg:
        fut = bg.submit(phase_mc, c, tier, g)
        seeds = [(V.seed() * 1000 + 500 + i, steps, i) for i in range(nh)]
        with cf.ThreadPoolExecutor(max_workers=2 if tier == "quick" else 4) as ex:
            docs = list(ex.map(lambda a: run_history(a[0], a[1], a[2], a[2]), seeds))
        lap("histories executed")
        keys = ("events", "txs", "accepted", "rejected", "removed", "blocks", "side_blocks", "reorgs", "detached_blocks",
                "directed_reorgs", "truncations", "restarts_after_save_pool", "restarts_after_kill", "entries_reloaded_after_restart",
                "own_templates_mined", "own_template_commits", "second_node_templates_mined", "second_node_template_commits",
                "twins_known_to_second_node_only", "side_blocks_with_commits", "uncles", "lives")
        tot = {k: 0 for k in keys}
        errors = []
        for d in docs:
            for k in keys:
                tot[k] += d["summary"].get(k, 0) or 0
            if d["summary"].get("error"):
                errors.append(d["summary"]["error"])
        stats = {"events": 0, "events_chain_side_only": 0, "truncated": 0, "uncut": []}
        with cf.ThreadPoolExecutor(max_workers=2 if tier == "quick" else 4) as ex:
            list(ex.map(lambda x: validate(c, "node_%d" % x[0], x[1], {"source": "g_node", "args": x[1]["summary"]}, stats),
                        list(enumerate(docs))))
        lap("histories validated")
        if tier == "thorough" and not c.violations:
            whole = [d for i, d in enumerate(docs) if "node_%d" % i in stats["uncut"]]
            if not whole:
                raise V.ToolError("growth-node: no history was validated to its end on both sides")
            selftest_corruptions(max(whole, key=lambda d: len(d["events"])), g)
            lap("oracle self-test")
        for d in docs:
            evs = d["events"]
            c.case({"growth_node": d["summary"]["seed"], "profile": d["summary"]["profile"], "n": len(evs)},
                   any(e["ev"] == "Block" and e["detach"] > 0 for e in evs) and any(e["ev"] == "Restart" for e in evs))
        fut.result()
    c.add("traces_validated_against_impl", len(docs))
    tot.update({"histories": len(docs), "events_validated": stats["events"],
                "events_compared_on_the_chain_side_only": stats["events_chain_side_only"],
                "histories_cut_by_violation_or_known_finding": stats["truncated"],
                "histories_ended_by_async_replacement": sum(1 for d in docs if d.get("stopped")),
                "max_reorg_depth": max(d["summary"].get("max_reorg_depth", 0) or 0 for d in docs),
                "fixture_stops": errors[:5]})
    g["whole_node_histories"] = tot
    g["invariants_evaluated_at_every_event"] = TRACE_INV
    if errors:
        raise V.ToolError("g_node fixture trouble: %s" % errors[:3])
    vac = (tot["reorgs"] == 0 or tot["restarts_after_save_pool"] + tot["restarts_after_kill"] == 0 or tot["own_template_commits"] == 0)
    if tier == "thorough":
        vac = vac or tot["truncations"] == 0 or tot["entries_reloaded_after_restart"] == 0 or tot["second_node_template_commits"] == 0 \
            or tot["restarts_after_kill"] == 0 or tot["restarts_after_save_pool"] == 0 or tot["side_blocks_with_commits"] == 0
    if vac:
        raise V.ToolError("vacuous growth-node run: %s" % tot)
    ev0 = [e for e in docs[0]["events"] if e["ev"] != "Mint"][:5]
    c.sample({"growth_node_history_prefix": [{k: e[k] for k in e if k in ("ev", "t", "ok", "b", "detach", "attach", "st", "pv", "croot", "tpl")}
                                             for e in ev0]})
    c.set("growth_node", g)


def replay(c, p, tier):
    """p: payload of a growth-node violation"""
    if p["kind"] == "growth_node_model":
        res = V.tlc(PID, "MC_Node", p["cfg"], workers=4)
        if res["violated"]:
            c.violation("growth-node/model/" + res["violated"], "model violation", p)
        return
    doc = {"universe": p["universe"], "genesis": p["genesis"], "ngen": p["ngen"], "events": p["events"]}
    stats = {"events": 0, "events_chain_side_only": 0, "truncated": 0, "uncut": []}
    validate(c, "replayed", doc, p.get("meta"), stats)
    a = (p.get("meta") or {}).get("args")
    if a:
        V.build_harness("g_node")
        d = run_history(a["seed"], a["steps"], a["profile"], 9999)
        validate(c, "rerun", d, p.get("meta"), stats)
