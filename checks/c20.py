"""C20 — the node's proposal view equals the on-chain proposal window, also after restart.

1. TLC checks ProposalWindow.tla exhaustively (windows (1,2) and (2,4), 2 ids, proposals in blocks and uncles):
   coded table (insert/remove/reload/finalize/init) = declarative window after every Extend / Reorg / Truncate /
   Restart; DroppedExact; VerifierAgrees.
2. R: TLC-simulated behaviours of the same spec (3 ids, longer chains) are replayed on a real node
   (harness/src/bin/c20.rs): the published view after every step, the dropped ids reported by the hook events,
   the view rebuilt by a real process restart, and probe blocks committing every id at every tip.
"""
import concurrent.futures as cf
import json
import os
import shutil
import subprocess
import tempfile

import vcheck as V

PID = "C20"
ACTIONS = ["HExtend", "HBegin", "HAttach", "HEnd", "HRestart"]
INVS = ["TypeOK", "ViewIsWindow", "DroppedExact", "VerifierAgrees", "TableCovers"]


# ---------------------------------------------------------------------------------------------------------
# behaviours
def group(hist):
    """TLC history (Extend / Begin,Attach*,End / Restart) -> steps Extend / Reorg / Truncate / Restart."""
    steps, cur = [], None
    for e in hist:
        a = e["a"]
        exp = {k: e[k] for k in ("len", "set", "gap", "dropped", "commit")}
        if a == "Extend":
            steps.append(dict(a="Extend", p=e["p"], u=e["u"], **exp))
        elif a == "Restart":
            steps.append(dict(a="Restart", **exp))
        elif a == "Begin":
            cur = {"k": e["k"], "blocks": []}
        elif a == "Attach":
            cur["blocks"].append({"p": e["p"], "u": e["u"]})
        elif a == "End":
            steps.append(dict(a="Reorg" if cur["blocks"] else "Truncate", k=cur["k"], blocks=cur["blocks"], **exp))
            cur = None
    return steps


def with_restarts(steps, limit):
    """Insert a Restart after every step. Restart is always enabled at a stable state and (ViewIsWindow, checked
    by TLC) leaves set/gap unchanged, so the result is again a behaviour of the spec with these expectations."""
    out = []
    for s in steps[:limit]:
        out.append(s)
        if s["a"] != "Restart":
            out.append(dict(a="Restart", len=s["len"], set=s["set"], gap=s["gap"], dropped=[], commit=s["commit"]))
    return out


def stats(steps, wc, wf):
    st = {"extend": 0, "reorg": 0, "truncate": 0, "restart": 0, "reorg_shrinking": 0, "reorg_deeper_than_window": 0,
          "reorg_to_shorter_than_wfar": 0, "uncle_props": 0, "dropped_nonempty": 0, "restart_below_wfar": 0}
    ln = 0
    for s in steps:
        a = s["a"]
        if a == "Extend":
            st["extend"] += 1
            st["uncle_props"] += 1 if s["u"] else 0
        elif a == "Restart":
            st["restart"] += 1
            st["restart_below_wfar"] += 1 if s["len"] < wf else 0
        else:
            st["reorg" if a == "Reorg" else "truncate"] += 1
            st["reorg_shrinking"] += 1 if s["len"] < ln else 0
            st["reorg_deeper_than_window"] += 1 if ln - s["k"] > wf else 0
            st["reorg_to_shorter_than_wfar"] += 1 if s["len"] < wf else 0
            st["uncle_props"] += sum(1 for b in s["blocks"] if b["u"])
        st["dropped_nonempty"] += 1 if s["dropped"] else 0
        ln = s["len"]
    return st


def generate(c, cfg, wc, wf, nids, num, depth, tag):
    res = V.tlc(PID, "MC_ProposalWindow", cfg, workers=4, simulate="num=%d" % num, depth=depth, timeout=600, tag=tag)
    if res["violated"]:
        c.violation("model/" + res["violated"], "ProposalWindow.tla violates %s in simulation %s" % (res["violated"], cfg),
                    {"kind": "model", "cfg": cfg, "tlc_tail": res["out"][-3000:]})
    hs = V.tlc_json_lines(res["out"], "BEHAVIOUR")
    if len(hs) < 20:
        V.log(res["out"][-2000:])
        raise V.ToolError("simulation %s produced only %d behaviours" % (cfg, len(hs)))
    c.add("simulated_states", int((V.SIM_RE.search(res["out"]) or [0, 0])[1]))
    return [dict(wc=wc, wf=wf, ids=nids, steps=group(h)) for h in hs]


# ---------------------------------------------------------------------------------------------------------
# replay on the real node
def run_behaviour(beh, timeout=600):
    """Run all lives of one behaviour; returns (observations, error text or None)."""
    tmp = os.path.join(V.HARNESS, "target", "tmp")
    os.makedirs(tmp, exist_ok=True)
    d = tempfile.mkdtemp(prefix="c20-", dir=tmp)
    bf = os.path.join(d, "beh.json")
    with open(bf, "w") as f:
        json.dump(beh, f)
    node = os.path.join(d, "node")
    os.makedirs(node)
    obs, frm, err = [], 0, None
    ltmp = os.path.join(d, "tmp")      # temp nodes of the lives (mirror node) live inside d, which is removed below
    os.makedirs(ltmp)
    env = dict(os.environ, TMPDIR=ltmp, RUST_BACKTRACE="0")
    try:
        for _life in range(len(beh["steps"]) + 2):
            try:
                p = subprocess.run([os.path.join(V.BIN_DIR, "c20"), "life", "--dir", node, "--beh", bf, "--from", str(frm)],
                                   stdout=subprocess.PIPE, stderr=subprocess.PIPE, timeout=timeout, env=env, cwd=V.ROOT)
            except subprocess.TimeoutExpired:
                err = "life timed out"
                break
            lines = V.parse_ndjson(p.stdout.decode("utf-8", "replace"))
            end = [x for x in lines if "life" in x]
            te = [x for x in lines if "tool_error" in x]
            obs += [x for x in lines if "step" in x]
            if te:
                err = "harness: " + te[0]["tool_error"]
                break
            if not end:
                err = "life ended without a verdict (rc=%d): %s" % (p.returncode, p.stderr.decode("utf-8", "replace")[-1500:])
                break
            nxt = end[0]["life"]["next"]
            if nxt is None:
                break
            frm = nxt
    finally:
        shutil.rmtree(d, ignore_errors=True)
    return obs, err


def judge(c, beh, obs):
    """Compare the observations of one behaviour with the model's expectations. Returns number of comparisons."""
    steps = beh["steps"]
    n = 0
    seen = set()
    payload = {"kind": "behaviour", "behaviour": beh}

    def bad(key, text, o):
        c.violation(key, text, dict(payload, observation=o, expected=steps[o["step"]]))

    for o in obs:
        s = steps[o["step"]]
        if "probe" in o:
            n += 1
            want = o["probe"] in s["commit"]
            if o["accepted"] != want:
                bad("probe/%s" % ("rejected-inside-window" if want else "accepted-outside-window"),
                    "step %d: a block committing id %d at tip %d was %s but the window %s it" % (
                        o["step"], o["probe"], s["len"], "accepted" if o["accepted"] else "rejected (%s)" % o["res"],
                        "contains" if want else "does not contain"), o)
            elif not o["accepted"] and "Commit" not in o["res"]:
                raise V.ToolError("probe block rejected for an unrelated reason: %s" % o["res"])
            if o["set_after"] != s["set"] or o["gap_after"] != s["gap"] or o["len"] != s["len"]:
                bad("probe/view-after-probe", "step %d: after probing id %d the view is set=%s gap=%s at tip %s, expected set=%s gap=%s at %d"
                    % (o["step"], o["probe"], o["set_after"], o["gap_after"], o["len"], s["set"], s["gap"], s["len"]), o)
            continue
        a = o["a"]
        seen.add(o["step"])
        if a != s["a"]:
            raise V.ToolError("observation/step mismatch at %d: %s vs %s" % (o["step"], a, s["a"]))
        if a in ("Extend", "Reorg", "Truncate"):
            rs = o["res"] if isinstance(o["res"], list) else [o["res"]]
            if any(not r.startswith("Ok(") for r in rs):
                raise V.ToolError("node rejected a block the scenario needs (%s step %d): %s" % (a, o["step"], rs))
            if o["tip_events"] != 1:
                raise V.ToolError("%s step %d produced %d tip-change events (expected 1)" % (a, o["step"], o["tip_events"]))
        if o["len"] != s["len"]:
            raise V.ToolError("tip number %d after %s step %d, scenario expects %d" % (o["len"], a, o["step"], s["len"]))
        n += 1
        for f in ("set", "gap"):
            if o[f] != s[f]:
                bad("view/%s/%s" % (a.lower(), f), "step %d (%s): published %s = %s, on-chain window says %s (tip %d)" % (
                    o["step"], a, f, o[f], s[f], s["len"]), o)
        if a != "Restart":
            if o["dropped"] != s["dropped"]:
                bad("dropped/%s" % a.lower(), "step %d (%s): ids reported as dropped %s, left the window: %s" % (
                    o["step"], a, o["dropped"], s["dropped"]), o)
            if o["ev_set"] != o["set"] or o["ev_gap"] != o["gap"]:
                bad("view/event-vs-snapshot", "step %d: view in the hook event differs from the published snapshot" % o["step"], o)
    return n, seen


def replay_all(c, behs, jobs=8):
    V.build_harness("c20")
    done = 0
    with cf.ThreadPoolExecutor(max_workers=jobs) as ex:
        futs = {ex.submit(run_behaviour, b): b for b in behs}
        for fu in cf.as_completed(futs):
            b = futs[fu]
            obs, err = fu.result()
            if err:
                raise V.ToolError("behaviour %s: %s" % (b.get("id"), err))
            n, seen = judge(c, b, obs)
            c.add("view_comparisons", n)
            if len(seen) != len(b["steps"]) and not c.violations:
                raise V.ToolError("behaviour %s: %d of %d steps observed" % (b.get("id"), len(seen), len(b["steps"])))
            done += 1
    return done


# ---------------------------------------------------------------------------------------------------------
def run(tier):
    c = V.Check(PID, "model_checking", tier)
    c.rule = ("cases = TLC-simulated behaviours of ProposalWindow.tla replayed step by step on a real node "
              "(view, dropped ids, restart view, probe verdicts compared after every step); non-trivial = the behaviour "
              "contains a reorganisation/truncation and a restart")
    c.assumptions = [
        "genesis proposes nothing (as on every real network)",
        "branches of the replay are made heavier by per-block difficulty (Switch::DISABLE_EPOCH for blocks whose "
        "difficulty is not the epoch's; every other rule is verified) so that reorganisations of any shape, also to shorter chains, happen atomically as in the model",
        "a restart is a real process exit without shutdown and a fresh SharedBuilder::build on the same directory",
        "restarts after every step and the probe blocks are added by the driver: by ViewIsWindow (checked by TLC) the expected view is a function of the chain alone",
    ]
    quick = tier == "quick"
    seed = V.seed()
    # 1. behaviours for the R binding (simulation of the same spec, invariants checked on the way)
    nsim = 30 if quick else 120
    behs = []
    for cfg, wc, wf, tag in (("MC_ProposalWindow_sim24.cfg", 2, 4, "sim24"), ("MC_ProposalWindow_sim12.cfg", 1, 2, "sim12")):
        bs = generate(c, cfg, wc, wf, 3, nsim, 90, tag)
        behs.append(bs)
    per = 18 if quick else 70
    chosen = []
    for bs in behs:
        for i, b in enumerate(bs[:per]):
            mode = i % 3
            b = dict(b, id=len(chosen), probes=(mode == 1))
            if mode == 2:
                b["steps"] = with_restarts(b["steps"], 10 if quick else 16)
            chosen.append(b)
    # 2. exhaustive model checking, concurrently with the replay
    cfgs = ["MC_ProposalWindow_12_5u.cfg", "MC_ProposalWindow_24_5u.cfg", "MC_ProposalWindow_24_6.cfg"] if quick else \
        ["MC_ProposalWindow_12_5u.cfg", "MC_ProposalWindow_24_5u.cfg", "MC_ProposalWindow_24_6.cfg", "MC_ProposalWindow_12_6.cfg",
         "MC_ProposalWindow_24_7.cfg", "MC_ProposalWindow_12_7.cfg"]
    pool = cf.ThreadPoolExecutor(max_workers=2 if quick else 3)
    tl = [(cfg, pool.submit(V.tlc, PID, "MC_ProposalWindow", cfg, workers=4, timeout=220 if quick else 1200, xmx="8g"))
          for cfg in cfgs]
    # 3. R
    tot = {}
    for b in chosen:
        st = stats(b["steps"], b["wc"], b["wf"])
        for k, v in st.items():
            tot[k] = tot.get(k, 0) + v
        c.case({"w": [b["wc"], b["wf"]], "steps": b["steps"], "probes": b["probes"]},
               (st["reorg"] + st["truncate"] > 0) and st["restart"] > 0)
    need = ["reorg", "truncate", "restart", "reorg_shrinking", "reorg_deeper_than_window", "reorg_to_shorter_than_wfar",
            "uncle_props", "dropped_nonempty", "restart_below_wfar"]
    if any(tot.get(k, 0) == 0 for k in need):
        raise V.ToolError("vacuous behaviour set: %s" % tot)
    done = replay_all(c, chosen)
    c.add("traces_validated_against_impl", done)
    c.set("replayed", tot)
    for b in chosen[:3]:
        c.sample({"window": [b["wc"], b["wf"]], "probes": b["probes"], "steps": b["steps"][:8]})
    # collect TLC
    for cfg, fu in tl:
        res = fu.result()
        if res["violated"]:
            c.violation("model/" + res["violated"], "ProposalWindow.tla violates %s in %s" % (res["violated"], cfg),
                        {"kind": "model", "cfg": cfg, "tlc_tail": res["out"][-3000:]})
        else:
            V.require_coverage(res, ACTIONS, cfg)
        c.add_tlc(res, cfg)
    c.set("exhaustive", True)
    return c.finish()


def replay(path, tier):
    c = V.Check(PID, "model_checking", tier)
    r = json.load(open(path))
    p = r["payload"]
    if p["kind"] == "behaviour":
        replay_all(c, [p["behaviour"]], jobs=1)
    else:
        res = V.tlc(PID, "MC_ProposalWindow", p["cfg"], workers=8)
        if res["violated"]:
            c.violation("model/" + res["violated"], "model violation", p)
    return 1 if c.violations else 0
