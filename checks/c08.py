"""C08 — a crash at any point of block import recovers to a consistent, convergent state.

1. TLC exhaustively checks CrashRecovery.tla (ChainState.tla at the grain of the database commits: insert / verify /
   delete, Crash enabled in every state, Restart, InitLoad scan, redelivery) for every tree of <= 3 (quick) / <= 4
   (thorough) blocks with a fork and an invalid block and <= 2 crashes: RestartOpens, ReplayConsistent in every state,
   RestartSnapshot, UnverifiedPickedUp, CrashConvergence. Self-tests: a verify commit split in two and a scan window that
   starts above the tip must be rejected.
2. Fault enumeration on the real code: for each history (trees exported by TLC and random 10-20 block histories with
   reorganisations and invalid blocks) a crash-free child counts the atomic database writes N (hook H3 in ckb-db); then
   for every n <= N and phase in {before, after} a child replays the history with VERIF_CRASH_AT=n:phase and aborts; a
   second child dumps what is on disk, starts the node on the directory (a panic is a violation), waits for
   InitLoadUnverified and quiescence, redelivers the history and dumps the final state. Each experiment is turned into
   a trace (the commits the child performed, Crash, Restart, InitDone, redelivery, Final) and validated by
   Trace_CrashRecovery.tla: the persisted columns must be exactly the model's durable state, nothing may be left
   unverified, the final state/tip/total difficulty must be those of the crash-free run.
"""
import json
import os
import random
import re
import shutil
import time
from concurrent.futures import ThreadPoolExecutor

import vcheck as V

PID = "C08"
CB = 1000
PAR = 6          # crash children at a time


def mc_cfg(name, **kw):
    base = open(os.path.join(V.SPEC, "MC_CrashRecovery_3.cfg")).read()
    for k, v in kw.items():
        base, n = re.subn(r"(?m)^(\s*%s = ).*$" % k, lambda m: m.group(1) + v, base)
        if n != 1:
            raise V.ToolError("cfg key %s" % k)
    path = os.path.join(V.workdir(PID), name)
    open(path, "w").write(base)
    return path


def lines_of(out):
    return V.parse_ndjson(out)


def node_dir(tag):
    base = os.path.join(V.HARNESS, "target", "tmp")
    os.makedirs(base, exist_ok=True)
    d = os.path.join(base, "c08-%d-%s" % (os.getpid(), tag))
    shutil.rmtree(d, ignore_errors=True)
    os.makedirs(d)
    return d


def crash_free(scen):
    d = node_dir("free-" + os.path.basename(scen))
    try:
        rc, out = V.ckbv("c08", ["run", "--scenario", scen, "--dir", d], timeout=600)
    finally:
        shutil.rmtree(d, ignore_errors=True)
    ls = lines_of(out)
    fin = [x for x in ls if "final" in x]
    if rc != 0 or not fin:
        V.log(out[-2000:])
        raise V.ToolError("crash-free run failed rc=%s" % rc)
    return {"start": [x for x in ls if "started" in x][0]["writes"], "deliveries": [x for x in ls if "d" in x],
            "final": fin[0]["final"], "writes": fin[0]["writes"]}


def model_steps(deliveries):
    """the model steps of a sequence of deliveries: (event, commits?)"""
    steps = []
    for x in deliveries:
        steps.append(({"ev": "Ins", "b": x["d"]}, True))
        steps.append(({"ev": "Ver", "b": x["d"], "res": x["res"], "tipd": x.get("tip") == x["d"]}, x["res"] == "ok"))
        if x["res"] == "err":
            steps.append(({"ev": "Del", "b": x["d"]}, True))
    return steps


def prefix_steps(steps, m):
    out, k = [], 0
    for ev, commit in steps:
        if k >= m:
            break
        out.append(ev)
        k += 1 if commit else 0
    return out


def experiment(scen, free, n, phase, second=None):
    """one crash experiment; returns dict(kind=..., events=[...] or failure description)"""
    tag = "%s-%d-%s%s" % (os.path.basename(scen).split(".")[0], n, phase, "-%s" % second if second else "")
    d = node_dir(tag)
    try:
        rc, out = V.ckbv("c08", ["run", "--scenario", scen, "--dir", d], timeout=600, env={"VERIF_CRASH_AT": "%d:%s" % (n, phase)})
        got = [x for x in lines_of(out) if "d" in x]
        if rc == 0:
            raise V.ToolError("child did not crash at write %d (%s)" % (n, phase))
        if got != free["deliveries"][:len(got)]:
            raise V.ToolError("child run is not a prefix of the crash-free run (non-deterministic fixture?)")
        persisted = None
        if second:
            # a second crash inside the recovery, then a clean reopen
            rc2, out2 = V.ckbv("c08", ["reopen", "--scenario", scen, "--dir", d], timeout=600, env={"VERIF_CRASH_AT": second})
            l2 = lines_of(out2)
            if [x for x in l2 if "restart_panic" in x] or (rc2 not in (0, -6, 134) and not [x for x in l2 if "final" in x]):
                return {"failure": "restart", "detail": out2[-1500:], "n": n, "phase": phase, "second": second}
        rc3, out3 = V.ckbv("c08", ["reopen", "--scenario", scen, "--dir", d], timeout=600)
    finally:
        shutil.rmtree(d, ignore_errors=True)
    ls = lines_of(out3)
    fin = [x for x in ls if "final" in x]
    if rc3 != 0 or not fin:
        return {"failure": "restart", "detail": out3[-1500:], "n": n, "phase": phase, "second": second}
    disk = [x for x in ls if "disk" in x][0]["disk"]
    initline = [x for x in ls if "initdone" in x][0]
    initdone = initline["initdone"]
    redel = [x for x in ls if "d" in x]
    m = max(0, (n - 1 if phase == "before" else n) - free["start"])
    evs = []
    if second is None:
        evs += prefix_steps(model_steps(free["deliveries"]), m)
        evs.append({"ev": "Crash"})
        evs.append({"ev": "Restart", "empty": bool(disk["empty"]), "obs": disk["obs"] or {}})
        evs.append({"ev": "InitDone", "obs": initdone["obs"], "unverified": initdone["unverified"], "snap": initline["snap"]})
        for ev, _ in model_steps(redel):
            evs.append(ev)
        evs.append({"ev": "Final", "obs": fin[0]["final"]["obs"], "tip": fin[0]["final"]["tip"], "td": fin[0]["final"]["td"]})
    else:
        if not disk["empty"]:
            evs.append({"ev": "Persisted", "obs": disk["obs"], "unverified": []})
        evs.append({"ev": "Persisted", "obs": initdone["obs"], "unverified": initdone["unverified"]})
        evs.append({"ev": "FinalFree", "obs": fin[0]["final"]["obs"], "tip": fin[0]["final"]["tip"], "td": fin[0]["final"]["td"]})
    return {"events": evs, "n": n, "phase": phase, "second": second, "m": m, "disk_unverified": disk["unverified"],
            "init_writes": [x for x in ls if "initdone" in x][0]["writes"], "final": {"tip": fin[0]["final"]["tip"], "td": fin[0]["final"]["td"]}}


def header_events(scen_json):
    evs = [{"ev": "Reset", "w0": scen_json["w0"]}]
    for b in scen_json["blocks"]:
        evs.append({"ev": "Mint", "b": b["b"], "p": b["p"], "num": b["num"], "cs": b["cs"], "us": b["us"], "cbo": b["cbo"], "ok": b["ok"],
                    "work": b["work"]})
    evs.append({"ev": "Start", "h": [b["b"] for b in scen_json["blocks"]]})
    return evs


def trace_cfg(name, epoch_len):
    path = os.path.join(V.workdir(PID), name)
    open(path, "w").write("SPECIFICATION RTSpec\nCONSTANTS\n Tx <- TraceTx\n GenesisTxs <- TraceGenesis\n L = %d\n CbBase = %d\n"
                          " Bug = \"none\"\n RBug = \"none\"\n MaxCrashes = 9\n ScanBack = 100000\n ScanAhead = 100000\n"
                          "INVARIANT ReplayConsistent\nINVARIANT RestartOpens\nINVARIANT RestartSnapshot\n"
                          "POSTCONDITION RAccepted\nCHECK_DEADLOCK FALSE\n" % (epoch_len, CB))
    return path


MIS_RE = re.compile(r'<<\s*"OBS-MISMATCH",\s*(\d+),\s*"([\w-]+)",\s*\{([^}]*)\}', re.S)
REJ_RE = re.compile(r'<<\s*"TRACE-REJECTED",\s*(\d+),')


def validate(scen_json, exps, tag):
    """all experiments of one scenario in one trace file; returns (accepted, states, violations)"""
    uni = {"ev": "Universe", "txs": scen_json["universe"], "ngen": scen_json["ngen"], "L": scen_json["epoch_len"], "cb": CB}
    head = header_events(scen_json)
    todo = list(range(len(exps)))
    viols, accepted, states, rounds = [], 0, 0, 0
    while todo:
        rounds += 1
        path = os.path.join(V.workdir(PID), "%s_v%d.ndjson" % (tag, rounds))
        sizes = []
        with open(path, "w") as f:
            f.write(json.dumps(uni) + "\n")
            for k in todo:
                evs = head + exps[k]["events"]
                sizes.append(len(evs))
                for e in evs:
                    f.write(json.dumps(e) + "\n")
        ok, res = V.validate_trace(PID, "Trace_CrashRecovery", trace_cfg("trace_%s.cfg" % tag, scen_json["epoch_len"]), path,
                                   tag="trace_" + tag, timeout=1500, xmx="6g")
        states += res["distinct"]
        if ok:
            accepted += len(todo)
            break
        out = res["out"]
        m = REJ_RE.search(out)
        if not m and not res["violated"]:
            V.log(out[-3000:])
            raise V.ToolError("trace validation of %s failed without a rejection" % tag)
        if m:
            at = int(m.group(1))
        else:
            # a model invariant failed while following the trace: TLC stopped right after the last matched event
            lm = re.findall(r"/\\ l = (\d+)", out)
            at = int(lm[-1]) - 1 if lm else 2
        pos, bad = 1, None
        for i, k in enumerate(todo):
            if pos < at <= pos + sizes[i]:
                bad = k
                break
            pos += sizes[i]
        if bad is None:
            V.log(out[-3000:])
            raise V.ToolError("cannot locate rejected event %d in %s" % (at, tag))
        accepted += todo.index(bad)
        mm = MIS_RE.search(out)
        cols = [x.strip().strip('"') for x in mm.group(3).split(",")] if mm else [res["violated"] or "not-a-behaviour"]
        where = mm.group(2) if mm else "model"
        i0 = max(out.find('<< "OBS-MISMATCH"'), out.find('<<"OBS-MISMATCH"'))
        e = exps[bad]
        evs = head + e["events"]
        cut = at - pos
        viols.append(("%s/%s" % (where, "+".join(sorted(cols))),
                      "crash at write %d (%s%s): event %d (%s) of the recovery is not a behaviour of CrashRecovery.tla (%s: %s)" % (
                          e["n"], e["phase"], ", then %s" % e["second"] if e["second"] else "", cut, evs[cut - 1]["ev"], where, ",".join(cols)),
                      {"kind": "trace", "scenario": scen_json, "n": e["n"], "phase": e["phase"], "second": e["second"],
                       "events": [{k: v for k, v in x.items() if k != "obs"} for x in evs[:cut]],
                       "detail": out[i0:i0 + 1800] if i0 >= 0 else out[-1500:]}))
        todo = todo[todo.index(bad) + 1:]
        if rounds > 8:
            break
    return accepted, states, viols


def validate_scan(scen_json, exps, tag):
    """LONG scenarios (hundreds of blocks): the experiments' traces against CrashScan.tla (header level: stored set, verdicts,
    tip / total difficulty at restart, after InitLoadUnverified and at the end).  Returns (accepted, states, violations)."""
    uni = {"ev": "Universe"}
    head = header_events(scen_json)
    cfg = os.path.join(V.workdir(PID), "trace_scan.cfg")
    open(cfg, "w").write("SPECIFICATION TSpec\nPOSTCONDITION Accepted\nCHECK_DEADLOCK FALSE\n")
    viols, accepted, states = [], 0, 0
    for k, e in enumerate(exps):
        path = os.path.join(V.workdir(PID), "%s_scan%d.ndjson" % (tag, k))
        evs = head + [{kk: vv for kk, vv in x.items() if kk != "obs" or x["ev"] == "Restart"} for x in e["events"]]
        for x in evs:
            if x["ev"] == "Restart":
                x["obs"] = {"tip": (x.get("obs") or {}).get("tip", 0)}
        with open(path, "w") as f:
            f.write(json.dumps(uni) + "\n")
            for x in evs:
                f.write(json.dumps(x) + "\n")
        ok, res = V.validate_trace(PID, "Trace_CrashScan", cfg, path, tag="scan_%s_%d" % (tag, k), timeout=900, xmx="4g")
        states += res["distinct"]
        if ok:
            accepted += 1
            continue
        out = res["out"]
        mm = MIS_RE.search(out)
        m = REJ_RE.search(out)
        if not mm and not m:
            V.log(out[-3000:])
            raise V.ToolError("trace validation (CrashScan) of %s failed without a rejection" % tag)
        what = mm.group(2) if mm else "not-a-behaviour"
        at = int(mm.group(1)) if mm else int(m.group(1))
        viols.append(("long/%s" % what,
                      "long chain (%d blocks), crash at write %d (%s): event %d (%s) is not a behaviour of CrashScan.tla (%s)" % (
                          len(scen_json["blocks"]), e["n"], e["phase"], at - 1, evs[at - 2]["ev"] if 0 <= at - 2 < len(evs) else "?", what),
                      {"kind": "trace-long", "scenario": scen_json, "n": e["n"], "phase": e["phase"], "second": e["second"],
                       "tail": [x for x in evs if x["ev"] != "Mint"][-12:], "detail": out[max(0, out.find("OBS-MISMATCH") - 20):][:1500]}))
    return accepted, states, viols


def enumerate_scenario(c, scen, phases, tier, rng, doubles, last_writes=None):
    sj = json.load(open(scen))
    free = crash_free(scen)
    N = free["writes"]
    # last_writes: a LONG scenario - only the crash points of its last database writes, judged at header level (CrashScan.tla)
    points = [(n, ph, None) for n in range(1 if last_writes is None else max(1, N - last_writes + 1), N + 1) for ph in phases]
    # repeated crashes: a second crash inside the recovery of some first crash points
    for _ in range(doubles):
        n = rng.randint(2, N)
        points.append((n, "after", "%d:%s" % (rng.randint(1, 6), rng.choice(["before", "after"]))))
    t0 = time.time()
    with ThreadPoolExecutor(max_workers=PAR) as ex:
        exps = list(ex.map(lambda p: experiment(scen, free, *p), points))
    V.log("[C08] %s: %d blocks, %d writes, %d crash experiments in %.0fs" % (os.path.basename(scen), len(sj["blocks"]), N, len(exps),
                                                                            time.time() - t0))
    good = []
    for e in exps:
        if "failure" in e:
            c.violation("restart/failed", "the node does not reopen after a crash at write %d (%s%s)" % (
                e["n"], e["phase"], ", then %s" % e["second"] if e["second"] else ""),
                {"kind": "restart", "scenario": sj, "n": e["n"], "phase": e["phase"], "second": e["second"], "detail": e["detail"]})
        else:
            good.append(e)
    acc, states, viols = (validate if last_writes is None else validate_scan)(sj, good, os.path.basename(scen).split(".")[0])
    for key, text, payload in viols:
        c.violation(key, text, payload)
    # bookkeeping
    dl = free["deliveries"]
    reorg_commits = set()
    tip = 0
    parents = {b["b"]: b["p"] for b in sj["blocks"]}
    w = free["start"]
    for x in dl:
        if x["res"] == "ok" and x["tip"] == x["d"] and parents[x["d"]] != tip:
            reorg_commits.add(w + 2)
        w = x["writes"]
        tip = x["tip"]
    st = {"experiments": len(exps), "accepted": acc, "writes": N, "blocks": len(sj["blocks"]),
          "around_reorg_commit": sum(1 for e in good if e["n"] in reorg_commits),
          "initload_had_work": sum(1 for e in good if e["disk_unverified"]),
          "invalid_in_flight": sum(1 for e in good if e["disk_unverified"] and not sj["blocks"][e["disk_unverified"][0] - 1]["ok"]),
          "double_crashes": sum(1 for e in good if e["second"]), "refused_in_history": sum(1 for x in dl if x["res"] == "err"),
          "reorgs_in_history": len(reorg_commits)}
    for e in good:
        c.case({"scen": os.path.basename(scen), "blocks": [b["hex"][:16] for b in sj["blocks"]], "n": e["n"], "phase": e["phase"], "second": e["second"]},
               bool(e["disk_unverified"]) or e["n"] in reorg_commits or bool(e["second"]))
    c.add("traces_validated_against_impl", acc)
    c.add("trace_states", states)
    return st, good


def run(tier):
    c = V.Check(PID, "fault_enumeration", tier)
    rng = random.Random(V.seed())
    c.rule = ("cases = crash experiments (history x atomic database write n x before/after [x second crash point]) executed on the real "
              "node and validated as traces of CrashRecovery.tla; non-trivial = the crash left a stored-but-unverified block for "
              "InitLoadUnverified, or hit the commit of a reorganisation, or was followed by a second crash during recovery")
    c.assumptions = [
        "a crash is a process abort (std::process::abort at the n-th RocksDB transaction commit / batch write): the OS keeps what "
        "was written; torn WAL writes of RocksDB itself are not modelled",
        "histories are delivered parent-first and one block at a time (the commit sequence of a run is then deterministic, which "
        "the check verifies); nothing is built on an invalid block (orphan broker: C01)",
        "after recovery the whole history is redelivered in the original order (what a synchronizer does)",
        "CrashConvergence compares tip, total difficulty and the canonical-chain view (C02); rows of unverified side blocks may "
        "differ (a refused block redelivered when it is no longer the best candidate is kept as an unverified side block)",
    ]
    V.build_harness("c08")
    wd = V.workdir(PID)
    # ---------------------------------------------------------------- 1. model checking + self-tests
    mcs = [("3 blocks (fork + invalid block), <= 2 crashes", mc_cfg("mc3.cfg", Emit="TRUE"), 4)]
    if tier == "thorough":
        mcs.append(("4 blocks (fork + invalid block), <= 2 crashes", mc_cfg("mc4.cfg", MaxBlocks="4", Emit="TRUE"), 4))
    trees, universe = [], None
    for what, cfg, workers in mcs:
        res = V.tlc(PID, "MC_CrashRecovery", cfg, workers=workers, timeout=1700, xmx="8g", tag=os.path.basename(cfg))
        if res["violated"]:
            c.violation("model/" + res["violated"], "CrashRecovery.tla violates %s (%s)" % (res["violated"], what),
                        {"kind": "model", "cfg": open(cfg).read(), "tlc_tail": res["out"][-3000:]})
        V.require_coverage(res, ["MintR", "Start", "InsertC", "VerifyC", "DeleteC", "GCrash", "Restart", "InitStep", "InitDone"], what)
        c.add_tlc(res, what)
        trees = V.tlc_json_lines(res["out"], "TREE")
        universe = V.tlc_json_lines(res["out"], "UNIVERSE")[0]
        c.set("crash_states_in_model", len(V.tlc_json_lines(res["out"], "CRASH")))
    c.set("exhaustive", True)
    for bug, inv in (("split-commit", "ReplayConsistent"), ("scan-from-tip", "UnverifiedPickedUp")):
        res = V.tlc(PID, "MC_CrashRecovery", mc_cfg("bug_%s.cfg" % bug, RBug='"%s"' % bug), workers=2, timeout=1700, coverage=False,
                    tag="bug_" + bug, xmx="4g")
        if res["violated"] != inv:
            raise V.ToolError("oracle self-test failed: RBug=%s gives %s, expected a violation of %s" % (bug, res["violated"], inv))
    c.set("selftests_rejected", ["split-commit", "scan-from-tip"])
    # ---------------------------------------------------------------- 2. scenarios: TLC trees + random histories
    def interesting(t):
        parents = [b["p"] for b in t]
        return len(set(parents)) < len(parents) and any(not b["ok"] for b in t) and any(b["cs"] for b in t)
    cand = [t for t in trees if interesting(t)]
    rng.shuffle(cand)
    ntree = 3 if tier == "quick" else 8
    scens = []
    for k, t in enumerate(cand[:ntree]):
        tp = os.path.join(wd, "tree_%d.json" % k)
        json.dump({"tree": t, "universe": universe}, open(tp, "w"))
        sp = os.path.join(wd, "scen_tree%d.json" % k)
        rc, out = V.ckbv("c08", ["build", "--tree", tp, "--epoch-len", 2, "--prelude", 2, "--out", sp], timeout=600)
        s = [x["summary"] for x in lines_of(out) if "summary" in x]
        if rc != 0 or not s or s[0]["error"]:
            V.log(out[-2000:])
            raise V.ToolError("c08 build failed: %s" % (s[0]["error"] if s else rc))
        scens.append((sp, ["before", "after"], 2 if tier == "thorough" else 1))
    nrand = 1 if tier == "quick" else 4
    for k in range(nrand):
        sp = os.path.join(wd, "scen_rand%d.json" % k)
        nb = 12 if tier == "quick" else rng.randint(10, 20)
        rc, out = V.ckbv("c08", ["build", "--seed", V.seed() * 100 + k, "--blocks", nb, "--txs", 16, "--epoch-len", [3, 2, 4][k % 3],
                                 "--out", sp], timeout=900)
        s = [x["summary"] for x in lines_of(out) if "summary" in x]
        if rc != 0 or not s or s[0]["error"]:
            V.log(out[-2000:])
            raise V.ToolError("c08 build failed: %s" % (s[0]["error"] if s else rc))
        scens.append((sp, ["after"] if tier == "quick" else ["before", "after"], 3 if tier == "quick" else 8))
    # directed: reorganisations between branches that split before an epoch boundary, tips inside one epoch number
    sp = os.path.join(wd, "scen_epochfork.json")
    rc, out = V.ckbv("c08", ["build", "--directed", "epochfork", "--seed", V.seed(), "--epoch-len", 3 if tier == "quick" else 4, "--out", sp], timeout=600)
    s = [x["summary"] for x in lines_of(out) if "summary" in x]
    if rc != 0 or not s or s[0]["error"]:
        V.log(out[-2000:])
        raise V.ToolError("c08 build (epochfork) failed: %s" % (s[0]["error"] if s else rc))
    scens.append((sp, ["after"], 1))
    # directed: LONG chain - the blocks of a TLC tree (fork + invalid block) on top of 255 empty blocks, so that the blocks in flight
    # at the crash have numbers 256.. (number-prefixed store keys are little-endian: byte order and numeric order part at 256)
    long_scens = []
    for k, pre in enumerate([255] if tier == "quick" else [255, 254, 511]):
        sp = os.path.join(wd, "scen_long%d.json" % k)
        rc, out = V.ckbv("c08", ["build", "--tree", os.path.join(wd, "tree_0.json"), "--epoch-len", 100, "--prelude", pre, "--out", sp], timeout=900)
        s = [x["summary"] for x in lines_of(out) if "summary" in x]
        if rc != 0 or not s or s[0]["error"]:
            V.log(out[-2000:])
            raise V.ToolError("c08 build (long) failed: %s" % (s[0]["error"] if s else rc))
        long_scens.append(sp)
    # ---------------------------------------------------------------- 3. fault enumeration
    tot = {}
    sample_done = False
    for sp, phases, doubles in scens:
        st, good = enumerate_scenario(c, sp, phases, tier, rng, doubles)
        for k, v in st.items():
            tot[k] = tot.get(k, 0) + v
        c.set("scenario_" + os.path.basename(sp).split(".")[0], st)
        if good and not sample_done:
            e = [x for x in good if x["disk_unverified"]] or good
            c.sample({"scenario": os.path.basename(sp), "crash_at_write": e[0]["n"], "phase": e[0]["phase"],
                      "events": [{k: v for k, v in x.items() if k != "obs"} for x in e[0]["events"]][:30]})
            sample_done = True
    ltot = {}
    for sp in long_scens:
        st, good = enumerate_scenario(c, sp, ["before", "after"], tier, rng, 0, last_writes=8)
        for k, v in st.items():
            ltot[k] = ltot.get(k, 0) + v
    c.set("long_chain_scenarios", ltot)
    if not ltot.get("initload_had_work"):
        raise V.ToolError("vacuous: no long-chain crash left a stored-but-unverified block above height 255 (%s)" % ltot)
    c.set("totals", tot)
    miss = [k for k in ("around_reorg_commit", "initload_had_work", "invalid_in_flight", "double_crashes", "reorgs_in_history",
                        "refused_in_history") if not tot.get(k)]
    if miss:
        raise V.ToolError("vacuous fault enumeration: never happened: %s (%s)" % (miss, tot))
    return c.finish()


def replay(path, tier):
    c = V.Check(PID, "fault_enumeration", tier)
    r = json.load(open(path))
    p = r["payload"]
    if p["kind"] == "model":
        cfg = os.path.join(V.workdir(PID), "replay_model.cfg")
        open(cfg, "w").write(p["cfg"])
        res = V.tlc(PID, "MC_CrashRecovery", cfg, workers=4, timeout=1700)
        if res["violated"]:
            c.violation("model/" + res["violated"], "model violation", p)
        return 1 if c.violations else 0
    wd = V.workdir(PID)
    sp = os.path.join(wd, "replay_scenario.json")
    json.dump(p["scenario"], open(sp, "w"))
    V.build_harness("c08")
    free = crash_free(sp)
    e = experiment(sp, free, p["n"], p["phase"], p.get("second"))
    if "failure" in e:
        c.violation("restart/failed", "the node does not reopen after the crash", p)
    else:
        acc, states, viols = validate(p["scenario"], [e], "replaycase")
        for key, text, payload in viols:
            c.violation(key, text, payload)
    return 1 if c.violations else 0
