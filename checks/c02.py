"""C02 — stored chain state and every snapshot equal a replay of the main chain.

1. TLC exhaustively checks ChainState.tla (ReplayConsistent, SnapshotConsistent) for all block trees with <= 3
   blocks (2 commits per block, invalid block, truncation, uncles) and <= 4 blocks (1 commit per block) minted over
   a transaction universe built around the undo corner cases; oracle self-tests: every seeded deviation of the
   attach/detach code (Bug constant) must violate ReplayConsistent.
2. R: one history per distinct terminal state is exported by TLC; a stratified sample (and the counterexample of
   every self-test) is built as real blocks and fed to a real node; after every step all canonical-chain columns are
   read through get_iter, projected to abstract ids and validated against the spec by Trace_ChainState.tla.
3. T: random histories (30 blocks, 40 transactions, reorg depth <= 8, truncations, invalid blocks, bursts) with a
   reader thread dumping the same projection from Shared::snapshot() at random instants.
"""
import json
import os
import random
import re
import subprocess
import time

import vcheck as V

PID = "C02"
ACTIONS = ["MCMint", "MCDeliver", "MCTruncate"]
BUGS = ["f3", "epochmeta", "norestore", "attach-order", "keep-txinfo", "keep-outputs"]
CB = 1000


def mc_cfg(name, **kw):
    """write a cfg under work/ from the committed base cfg with overrides"""
    base = open(os.path.join(V.SPEC, "MC_ChainState_3.cfg")).read()
    for k, v in kw.items():
        base, n = re.subn(r"(?m)^(\s*%s = ).*$" % k, lambda m: m.group(1) + v, base)
        if n != 1:
            raise V.ToolError("cfg key %s" % k)
    path = os.path.join(V.workdir(PID), name)
    open(path, "w").write(base)
    return path


def features(h, uni=None):
    """cheap signature of a TLC history: simulated reorg depths, re-commits, cells created and spent on a detached
    branch, inputs restored from the common prefix, truncation, refusals, uncles, tree shape"""
    parent = {0: None}
    tip = 0
    depth_max = 0
    commits = {}

    def chain(b):
        r = []
        while b is not None:
            r.append(b)
            b = parent[b]
        return r[::-1]

    recommit = False
    created_spent = False
    restored = False
    siblings = False
    seen_main = {}

    def detach(blocks):
        nonlocal created_spent, restored, siblings
        txs = set(t for x in blocks for t in commits.get(x, []))
        if uni:
            # one detached block holds two separate transactions that spend outputs of ONE transaction staying on the chain
            for x in blocks:
                srcs = [set(i[0] for i in uni[t - 1]["ins"]) - txs for t in commits.get(x, [])]
                if any(srcs[a] & srcs[b] for a in range(len(srcs)) for b in range(a + 1, len(srcs))):
                    siblings = True
            for t in txs:
                for i in uni[t - 1]["ins"]:
                    if i[0] in txs:
                        created_spent = True
                    else:
                        restored = True

    for s in h:
        if s["a"] == "Mint":
            parent[s["b"]] = s["p"]
            commits[s["b"]] = s["cs"] if s["ok"] else []
        elif s["a"] == "Deliver" and s["res"] == "attached":
            a, b = chain(tip), chain(s["b"])
            k = 0
            while k < min(len(a), len(b)) and a[k] == b[k]:
                k += 1
            depth_max = max(depth_max, len(a) - k)
            detach(a[k:])
            for x in b[k:]:
                for t in commits.get(x, []):
                    if t in seen_main and seen_main[t] != x:
                        recommit = True
                    seen_main[t] = x
            tip = s["b"]
        elif s["a"] == "Truncate":
            a = chain(tip)
            detach(a[a.index(s["b"]) + 1:])
            tip = s["b"]
    return (depth_max, recommit, any(s["a"] == "Truncate" for s in h), any(s.get("res") == "failed" for s in h),
            any(s.get("us") for s in h), max([len(s.get("cs", [])) for s in h] + [0]),
            tuple(s["p"] for s in h if s["a"] == "Mint"), created_spent, restored, siblings)


FLAGS = ["reorg_depth2", "reorg", "recommit", "truncate", "refused", "uncle", "two_commits", "in_block_chain",
         "created_and_spent_detached", "restored_input", "sibling_spenders_detached"]


def flags(h, uni):
    f = features(h, uni)
    return {"created_and_spent_detached": f[7], "restored_input": f[8], "sibling_spenders_detached": f[9], "reorg_depth2": f[0] >= 2, "reorg": f[0] >= 1, "recommit": f[1], "truncate": f[2], "refused": f[3], "uncle": f[4],
            "two_commits": f[5] >= 2, "in_block_chain": any(s.get("cs") in ([4, 5], [4, 6]) and s.get("ok") for s in h)}


def sample_histories(hists, n, rng, uni):
    """seeded sample that contains every interesting feature several times, the rest uniformly"""
    idx = list(range(len(hists)))
    rng.shuffle(idx)
    fl = {}
    chosen = []
    quota = max(2, n // (2 * len(FLAGS)))
    have = {k: 0 for k in FLAGS}
    for k in idx[:20000]:
        fl[k] = flags(hists[k], uni)
    for name in FLAGS:
        for k in idx[:20000]:
            if have[name] >= quota:
                break
            if fl[k][name] and k not in chosen:
                chosen.append(k)
                for m in FLAGS:
                    have[m] += 1 if fl[k][m] else 0
    for k in idx:
        if len(chosen) >= n:
            break
        if k not in chosen:
            chosen.append(k)
    return [hists[k] for k in chosen[:n]], have


def run_parallel(jobs, timeout):
    """jobs: list of argv for the c02 binary; <= 8 at a time, each through vcheck.ckbv (own TMPDIR, removed afterwards)"""
    from concurrent.futures import ThreadPoolExecutor
    V.build_harness("c02")
    with ThreadPoolExecutor(max_workers=8) as ex:
        return list(ex.map(lambda a: V.ckbv("c02", a, timeout=timeout), jobs))


def summary_of(rc, out, what):
    summ = [x["summary"] for x in V.parse_ndjson(out) if "summary" in x]
    if rc != 0 or not summ:
        V.log(out[-3000:])
        raise V.ToolError("c02 %s failed rc=%s" % (what, rc))
    if summ[0]["errors"]:
        # a scenario the fixture could not build is a generator problem, never a verdict on the code
        raise V.ToolError("c02 %s: scenario construction failed: %s" % (what, summ[0]["errors"][:3]))
    return summ[0]


def trace_cfg(name, epoch_len):
    path = os.path.join(V.workdir(PID), name)
    open(path, "w").write("SPECIFICATION TSpec\nCONSTANTS\n Tx <- TraceTx\n GenesisTxs <- TraceGenesis\n L = %d\n CbBase = %d\n"
                          " Bug = \"none\"\nINVARIANT ReplayConsistent\nINVARIANT SnapshotConsistent\nPOSTCONDITION Accepted\n"
                          "CHECK_DEADLOCK FALSE\n" % (epoch_len, CB))
    return path


def classify(cols, detail, events):
    """signature of a rejected observation"""
    cols = sorted(cols)
    what = "+".join(cols)
    return "state/%s" % what


MIS_RE = re.compile(r'<<\s*"OBS-MISMATCH",\s*(\d+),\s*"(\w+)",\s*\{([^}]*)\}', re.S)
REJ_RE = re.compile(r'<<\s*"TRACE-REJECTED",\s*(\d+),')


def validate(trace, epoch_len, tag, source, meta):
    """Validate a trace file (Universe line + histories). On a rejection the offending history is reported, cut out,
    and validation continues with the rest. Returns (histories accepted, TLC states, [violation tuples])."""
    lines = open(trace).read().splitlines()
    uni = lines[0]
    hists = []
    for ln in lines[1:]:
        if '"ev":"Reset"' in ln:
            hists.append([])
        hists[-1].append(ln)
    accepted = 0
    todo = list(range(len(hists)))
    rounds = 0
    total_states = 0
    viols = []
    while todo:
        rounds += 1
        path = os.path.join(V.workdir(PID), "%s_v%d.ndjson" % (tag, rounds))
        with open(path, "w") as f:
            f.write(uni + "\n")
            for k in todo:
                f.write("\n".join(hists[k]) + "\n")
        ok, res = V.validate_trace(PID, "Trace_ChainState", trace_cfg("trace_%s.cfg" % tag, epoch_len), path,
                                   tag="trace_" + tag, timeout=1500, xmx="6g")
        total_states += res["distinct"]
        if ok:
            accepted += len(todo)
            break
        out = res["out"]
        m = REJ_RE.search(out)
        if not m and not res["violated"]:
            V.log(out[-3000:])
            raise V.ToolError("trace validation of %s failed without a rejection" % tag)
        mm = MIS_RE.search(out)
        at = int(m.group(1)) if m else -1
        if res["violated"] and not m:
            dm = re.search(r"The depth of the complete state graph search is (\d+)", out)
            at = int(dm.group(1)) + 1 if dm else 2
        pos = 1
        bad = None
        for k in todo:
            if pos < at <= pos + len(hists[k]):
                bad = k
                break
            pos += len(hists[k])
        if bad is None:
            V.log(out[-3000:])
            raise V.ToolError("cannot locate rejected event %d in %s" % (at, tag))
        accepted += todo.index(bad)
        evs = [json.loads(x) for x in hists[bad]]
        cut = at - pos            # index (1-based) of the rejected event inside the history
        cols = [x.strip().strip('"') for x in mm.group(3).split(",")] if mm else [res["violated"] or "not-a-behaviour"]
        where = mm.group(2) if mm else "model"
        i0 = max(out.find('<< "OBS-MISMATCH"'), out.find('<<"OBS-MISMATCH"'))
        detail = out[i0:i0 + 1800] if i0 >= 0 else out[-1500:]
        key = "%s/%s" % (where, "+".join(sorted(cols)))
        steps = [{k: v for k, v in e.items() if k not in ("obs",)} for e in evs[:cut]]
        viols.append((key, "%s history %d: observation %d of the real node is not what ChainState.tla computes (%s: %s)" % (
            source, bad, cut, where, ",".join(cols)),
            {"kind": "trace", "epoch_len": epoch_len, "universe": json.loads(uni), "events": evs[:cut], "steps": steps,
             "detail": detail, "meta": meta}))
        todo = todo[todo.index(bad) + 1:]
        if rounds > 6:
            break
    return accepted, total_states, viols


def merge_stats(tot, s):
    for k, v in s.items():
        tot[k] = max(tot.get(k, 0), v) if k in ("max_reorg_depth", "cells_with_data", "cellbase_cells") else tot.get(k, 0) + v


def run(tier):
    from concurrent.futures import ThreadPoolExecutor
    c = V.Check(PID, "model_checking", tier)
    rng = random.Random(V.seed())
    c.rule = ("cases = histories executed on a real node whose every observation (all canonical-chain columns through get_iter, "
              "from the store at quiescence and from snapshots taken by a concurrent reader) was validated by Trace_ChainState; "
              "non-trivial = the history contains a reorganisation, a truncation or a refused block")
    c.assumptions = [
        "constant difficulty (permanent_difficulty_in_dummy): every epoch has L blocks; epoch arithmetic itself is C07",
        "blocks are delivered parent-first (orphans are C01); each block is delivered once (redelivery is C08)",
        "rows of side-chain blocks in COLUMN_BLOCK_EXT / COLUMN_BLOCK_EPOCH / COLUMN_EPOCH, MMR nodes at positions >= "
        "mmr_size(tip) and epoch-number rows above the current epoch are outside the property (silent) and ignored",
        "the reader thread observes snapshots at random instants (sampling of schedules, not exhaustive)",
    ]
    V.build_harness("c02")
    wd = V.workdir(PID)
    # ---------------------------------------------------------------- 1. exhaustive model checking (+ self-tests), in parallel
    deep = dict(MaxBlocks="5", MaxCommits="1", MaxBad="0", MaxTrunc="0", MaxForks="1", Uncles="FALSE", Emit="TRUE")
    if tier == "quick":
        mcs = [("3 blocks, 2 commits, invalid block, truncation", mc_cfg("mc3.cfg", Emit="TRUE"), 4),
               # universe B: two separate transactions of ONE block spend the two outputs of an earlier transaction (undone together)
               ("3 blocks, universe B", mc_cfg("mc3b.cfg", Universe='"B"', Emit="TRUE"), 4),
               ("4 blocks, 1 commit, uncles", mc_cfg("mc4.cfg", MaxBlocks="4", MaxCommits="1", MaxBad="0", MaxTrunc="0", Emit="TRUE"), 4),
               ("5 blocks, one fork (reorg depth 2), 1 commit", mc_cfg("mc5.cfg", **deep), 4)]
    else:
        mcs = [("3 blocks, 2 commits, invalid block, truncation", mc_cfg("mc3.cfg", Emit="TRUE"), 3),
               ("3 blocks, universe B", mc_cfg("mc3b.cfg", Universe='"B"', Emit="TRUE"), 3),
               ("4 blocks, 1 commit, uncles, truncation", mc_cfg("mc4.cfg", MaxBlocks="4", MaxCommits="1", MaxBad="0", Emit="TRUE"), 3),
               ("5 blocks, one fork (reorg depth 2), 1 commit", mc_cfg("mc5.cfg", **deep), 3),
               ("5 blocks, one fork, universe B", mc_cfg("mc5b.cfg", **dict(deep, Universe='"B"')), 3)]

    def run_mc(item):
        what, cfg, workers = item
        return what, cfg, V.tlc(PID, "MC_ChainState", cfg, workers=workers, timeout=1700, xmx="8g", tag=os.path.basename(cfg),
                                coverage=False)

    def run_selftest(bug):
        small = bug in ("f3", "epochmeta")
        cfg = mc_cfg("bug_%s.cfg" % bug, Bug='"%s"' % bug, Emit="FALSE",
                     **({"MaxBlocks": "4", "MaxCommits": "0", "MaxBad": "0"} if small else {}))
        # BugHist prints the offending history; it must be evaluated before ReplayConsistent
        txt = open(cfg).read().replace("INVARIANT ReplayConsistent", "INVARIANT BugHist\nINVARIANT ReplayConsistent", 1)
        open(cfg, "w").write(txt)
        return bug, V.tlc(PID, "MC_ChainState", cfg, workers=1, timeout=1700, coverage=False, tag="bug_" + bug, xmx="2g")

    nrand = 4 if tier == "quick" else 24
    rjobs = []
    for k in range(nrand):
        out = os.path.join(wd, "random_%d.ndjson" % k)
        el = [4, 3, 5, 2][k % 4]
        rjobs.append((["random", "--seed", V.seed() * 1000 + k, "--hist", 1, "--blocks", 30, "--txs", 40, "--epoch-len", el,
                       "--cells", 8, "--snaps", 14, "--out", out], out, el))
    t0 = time.time()
    with ThreadPoolExecutor(max_workers=12) as ex:
        f_mc = [ex.submit(run_mc, m) for m in mcs]
        f_st = [ex.submit(run_selftest, b) for b in BUGS]
        f_rand = ex.submit(run_parallel, [j[0] for j in rjobs], 1500)
        mc_res = [f.result() for f in f_mc]
        st_res = [f.result() for f in f_st]
        rand_res = f_rand.result()
    V.log("[C02] model checking + self-tests + random histories: %.0fs" % (time.time() - t0))
    emitted = []
    for what, cfg, res in mc_res:
        if res["violated"]:
            c.violation("model/" + res["violated"], "ChainState.tla violates %s (%s)" % (res["violated"], what),
                        {"kind": "model", "cfg": open(cfg).read(), "tlc_tail": res["out"][-3000:]})
        hs = V.tlc_json_lines(res["out"], "HIST")
        us = V.tlc_json_lines(res["out"], "UNIVERSE")
        # vacuity guard without -coverage (it doubles TLC's run time here): the exported histories (one per distinct
        # terminal state) must contain every action, reorganisations and refusals
        acts = {"Mint": 0, "Deliver": 0, "Truncate": 0, "attached": 0, "side": 0, "failed": 0}
        for h in hs:
            for st in h:
                acts[st["a"]] += 1
                if st["a"] == "Deliver":
                    acts[st["res"]] += 1
        wanted = ["Mint", "Deliver", "attached", "side"] + (["Truncate"] if "MaxTrunc = 1" in open(cfg).read() else []) + (
            ["failed"] if "MaxBad = 1" in open(cfg).read() else [])
        if res["distinct"] < 1000 or [a for a in wanted if not acts[a]]:
            raise V.ToolError("vacuous model run (%s): %s, %d states" % (what, acts, res["distinct"]))
        res["coverage"] = {k: (v, v) for k, v in acts.items()}
        c.add_tlc(res, what)
        if hs:
            emitted.append((us[0], hs, what))
    c.set("exhaustive", True)
    selftests = []
    for bug, res in st_res:
        if res["violated"] != "ReplayConsistent":
            raise V.ToolError("oracle self-test failed: Bug=%s does not violate ReplayConsistent (%s)" % (bug, res["violated"]))
        hs = V.tlc_json_lines(res["out"], "BUGHIST")
        if not hs:
            raise V.ToolError("self-test %s: no counterexample history printed" % bug)
        selftests.append((bug, min(hs, key=len)))
    c.set("selftests_rejected", [b for b, _ in selftests])
    # ---------------------------------------------------------------- 2. R: TLC histories on the real node
    nsample = 72 if tier == "quick" else 300
    jobs, metas = [], []
    allpicks = []
    for ui, (uni, hs, what) in enumerate(emitted):
        pick, have = sample_histories(hs, nsample // len(emitted), rng, uni)
        if ui == 0:
            # counterexamples of the self-tests (universe A): the real node must not show the seeded deviation
            pick = [h for _, h in selftests] + pick
        allpicks.append(pick)
        c.set("tlc_histories_%d" % ui, {"config": what, "exported": len(hs), "features_in_sample": have, "replayed": len(pick)})
        upath = os.path.join(wd, "universe_%d.json" % ui)
        json.dump(uni, open(upath, "w"))
        hpath = os.path.join(wd, "hist_%d.ndjson" % ui)
        with open(hpath, "w") as f:
            for h in pick:
                f.write(json.dumps(h) + "\n")
        per = max(1, (len(pick) + 3) // 4)
        for a in range(0, len(pick), per):
            out = os.path.join(wd, "replay_%d_%d.ndjson" % (ui, a))
            jobs.append(["replay", "--in", hpath, "--universe", upath, "--epoch-len", 2, "--prelude", 2, "--from", a,
                         "--to", min(len(pick), a + per), "--out", out])
            metas.append((ui, a, out))
    t0 = time.time()
    results = run_parallel(jobs, timeout=1200)
    V.log("[C02] %d TLC histories replayed on the real node: %.0fs" % (sum(len(p) for p in allpicks), time.time() - t0))
    tot, rtot = {}, {}
    replay_traces = {}
    for (ui, a, out), (rc, o) in zip(metas, results):
        merge_stats(tot, summary_of(rc, o, "replay")["stats"])
        replay_traces.setdefault(ui, []).append(out)
    rand_traces = []
    for (args, out, el), (rc, o) in zip(rjobs, rand_res):
        merge_stats(rtot, summary_of(rc, o, "random")["stats"])
        rand_traces.append((out, el, args))
    c.set("replay_stats", tot)
    c.set("random_stats", rtot)
    # vacuity guards: the corner cases of the property must have been executed on the real node
    both = {k: tot.get(k, 0) + rtot.get(k, 0) for k in set(tot) | set(rtot)}
    need = [("replay", tot, ["reorgs", "recommits", "restored_inputs", "truncations", "refused", "side"]),
            ("random", rtot, ["reorgs_depth2", "truncations", "snaps", "snaps_behind", "cellbase_cells", "cells_with_data", "side"]),
            ("replay+random", both, ["reorgs_depth2", "recommits", "created_and_spent_detached", "restored_inputs", "refused", "uncles"])]
    for what, d, keys in need:
        miss = [k for k in keys if not d.get(k)]
        if miss:
            raise V.ToolError("vacuous %s run: never happened: %s (%s)" % (what, miss, d))
    if rtot["max_reorg_depth"] < 3:
        raise V.ToolError("vacuous random run: max reorg depth %d" % rtot["max_reorg_depth"])
    # ---------------------------------------------------------------- 3. validation of every recorded trace by TLC
    vjobs = []
    for ui, outs in replay_traces.items():
        for o in outs:
            vjobs.append((o, 2, "replay%d_%s" % (ui, o.rsplit("_", 1)[1].split(".")[0]), "TLC-generated",
                          {"source": "replay", "universe": ui}))
    for k, (out, el, args) in enumerate(rand_traces):
        vjobs.append((out, el, "random%d" % k, "random", {"source": "random", "args": [str(a) for a in args]}))
    t0 = time.time()
    with ThreadPoolExecutor(max_workers=8) as ex:
        vres = list(ex.map(lambda j: validate(*j), vjobs))
    V.log("[C02] %d traces validated by Trace_ChainState: %.0fs" % (len(vjobs), time.time() - t0))
    for acc, states, viols in vres:
        c.add("traces_validated_against_impl", acc)
        c.add("trace_states", states)
        for key, text, payload in viols:
            c.violation(key, text, payload)
    for ui, pick in enumerate(allpicks):
        for h in pick:
            f = features(h)
            c.case({"u": ui, "h": h}, f[0] > 0 or f[2] or f[3])
    for out, el, args in rand_traces:
        c.case({"random": [str(a) for a in args]}, True)
    ev = [json.loads(x) for x in open(rand_traces[0][0]).read().splitlines()[1:40]]
    c.sample({"random_history_prefix": [{k: v for k, v in e.items() if k != "obs"} for e in ev][:25]})
    c.sample({"tlc_history": allpicks[0][len(selftests)]})
    return c.finish()


def replay(path, tier):
    c = V.Check(PID, "model_checking", tier)
    r = json.load(open(path))
    p = r["payload"]
    if p["kind"] == "model":
        cfg = os.path.join(V.workdir(PID), "replay_model.cfg")
        open(cfg, "w").write(p["cfg"])
        res = V.tlc(PID, "MC_ChainState", cfg, workers=8, timeout=1700)
        if res["violated"]:
            c.violation("model/" + res["violated"], "model violation", p)
        return 1 if c.violations else 0
    # re-execute the scenario on the real node (current working tree of /repo) and validate again
    wd = V.workdir(PID)
    steps = p["steps"]
    meta = p.get("meta", {})
    out = os.path.join(wd, "replay_case.ndjson")
    if meta.get("source") == "random":
        rc, o = V.ckbv("c02", meta["args"][:-1] + [out], timeout=900)
        summary_of(rc, o, "random")
    else:
        # rebuild the abstract history from the recorded steps (prelude blocks are part of it: prelude 0)
        h = []
        for s in steps:
            if s["ev"] == "Mint":
                h.append({"a": "Mint", "b": s["b"], "p": s["p"], "cs": s["cs"], "us": s["us"], "ok": s["ok"]})
            elif s["ev"] == "Deliver":
                h.append({"a": "Deliver", "b": s["b"]})
            elif s["ev"] == "Truncate":
                h.append({"a": "Truncate", "b": s["b"]})
        hp = os.path.join(wd, "replay_case_hist.ndjson")
        open(hp, "w").write(json.dumps(h) + "\n")
        up = os.path.join(wd, "replay_case_universe.json")
        json.dump(p["universe"]["txs"], open(up, "w"))
        rc, o = V.ckbv("c02", ["replay", "--in", hp, "--universe", up, "--epoch-len", p["epoch_len"], "--prelude", 0, "--out", out],
                       timeout=900)
        summary_of(rc, o, "replay")
    acc, states, viols = validate(out, p["epoch_len"], "replaycase", "replayed", meta)
    for key, text, payload in viols:
        c.violation(key, text, payload)
    return 1 if c.violations else 0
