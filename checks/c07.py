"""C07 — epoch length, difficulty and per-block issuance arithmetic stay within spec.

1. TLC explores the chain-of-epochs machine of spec/Epoch.tla exhaustively over SCALED constants
   (MC_Epoch_*.cfg): every reachable epoch record x every (uncles, duration) input, every one-step result
   characterised without division (StepOK), the whole scaled compact/target/difficulty space (ASSUME
   CompactOK); a small configuration run with -coverage shows every clamp / rounding branch is taken.
2. A (arithmetic at real magnitude): harness/src/bin/c07.rs runs the REAL functions (Consensus::next_epoch_ext
   through a stub EpochProvider, EpochExt::block_reward / secondary_block_issuance, primary_epoch_reward,
   compact/target/difficulty conversions, Eaglesong engines, EpochNumberWithFraction) on boundary-directed and
   random u64/U256 inputs; the records become a TLA+ constant module and Apalache evaluates the operators of
   Epoch.tla on them (spec/apa/Epoch_A.tla).  The specification is the oracle; python only moves text.
"""
import json
import os
import re
import shutil
import time
from concurrent.futures import ThreadPoolExecutor

import vcheck as V

PID = "C07"
OBSERVERS = ["CloseEpoch", "Genesis", "LenNoUnclesAbs", "LenNoUnclesTau", "LenMaxAbs", "LenMaxTau", "LenMinAbs",
             "LenMinTau", "LenFree", "HRNoPrev", "HRLow", "HRHigh", "HRInside", "DiffIdeal", "DiffNoOrphans",
             "DiffBoundedIdeal", "DiffBoundedEstimate", "DiffForcedToOne", "RateForcedToOne", "SubSecond", "Halving",
             "Remainder"]
# branches the real-magnitude inputs must reach (the spec tells which branch an input takes)
REAL_TAGS = {"len": ["len-no-uncles-abs", "len-no-uncles-tau", "len-max-abs", "len-max-tau", "len-min-abs", "len-min-tau",
                     "len-free"],
             "hr": ["hr-no-prev", "hr-low", "hr-high", "hr-inside"],
             "diff": ["diff-ideal", "diff-no-orphans", "diff-bounded-estimate"],
             # raw estimate exactly on / one off the clamp bounds 2*prev and prev/2 (named vacuity cases)
             "edge": ["hr-estimate-at-upper-bound-1", "hr-estimate-at-upper-bound+0", "hr-estimate-at-upper-bound+1",
                      "hr-estimate-at-lower-bound-1", "hr-estimate-at-lower-bound+0", "hr-estimate-at-lower-bound+1",
                      # the computed length exactly on its bound: not bounded yet (the ideal orphan rate still applies)
                      "len-computed-equals-upper-bound", "len-computed-equals-lower-bound"]}
APALACHE = "apalache-mc"
KINDS = ["next", "reward", "halving", "c2t", "t2c", "d2c", "pow", "field", "succ"]
SEQ = {"next": "NextCases", "reward": "RewardCases", "halving": "HalvingCases", "c2t": "C2TCases", "t2c": "T2CCases",
       "d2c": "D2CCases", "pow": "PowCases", "field": "FieldCases", "succ": "SuccCases"}
BAD = {"next": "badNext", "reward": "badReward", "halving": "badHalving", "c2t": "badC2T", "t2c": "badT2C",
       "d2c": "badD2C", "pow": "badPow", "field": "badField", "succ": "badSucc"}
EXP = {"next": "expNext", "halving": "expHalving", "c2t": "expC2T", "t2c": "expT2C", "d2c": "expD2C"}

EPOCH_T = "{number: Int, start: Int, len: Int, base: Int, rem: Int, prevHR: Int, compact: Int}"
TYPES = {
    "next": "{number: Int, start: Int, len: Int, base: Int, rem: Int, prevHR: Int, compact: Int, uncles: Int, ms: Int, "
            "panic: Bool, o: %s}" % EPOCH_T,
    "reward": "{start: Int, len: Int, base: Int, rem: Int, secondary: Int, ns: Seq(Int), primary: Seq(Int), "
              "secondaryOut: Seq(Int), sum1: Int, sum2: Int}",
    "halving": "{number: Int, panic: Bool, reward: Int}",
    "c2t": "{c: Int, panic: Bool, target: Int, overflow: Bool, difficulty: Int}",
    "t2c": "{t: Int, panic: Bool, c: Int}",
    "d2c": "{d: Int, panic: Bool, c: Int}",
    "pow": "{hash: Int, c: Int, accept: Bool}",
    "field": "{number: Int, index: Int, length: Int, full: Int, wf: Bool, bnumber: Int, bindex: Int, blength: Int}",
    "succ": "{pnumber: Int, pindex: Int, plength: Int, snumber: Int, sindex: Int, slength: Int, succ: Bool}",
}
DEFAULT_P = {"min_len": 300, "max_len": 1800, "target_dur": 14400, "on": 1, "od": 40, "initial": "191780821917808",
             "secondary": "61369863013698", "halving": 8760}


def b(x):
    return "TRUE" if x else "FALSE"


def rec(d):
    return "[" + ", ".join("%s |-> %s" % (k, v) for k, v in d.items()) + "]"


def seq(xs):
    return "<<" + ", ".join(str(x) for x in xs) + ">>"


def epoch_lit(o):
    return rec({"number": o["number"], "start": o["start"], "len": o["len"], "base": o["base"], "rem": o["rem"],
                "prevHR": o["prev_hr"], "compact": o["compact"]})


ZERO_EPOCH = rec({"number": 0, "start": 0, "len": 0, "base": 0, "rem": 0, "prevHR": 0, "compact": 0})


def literal(r):
    """TLA+ record literal of one observation (text transfer only; no arithmetic)."""
    k, i, o = r["k"], r["in"], r["out"]
    pan = "panic" in o
    if k == "next":
        return rec({"number": i["number"], "start": i["start"], "len": i["len"], "base": i["base"], "rem": i["rem"],
                    "prevHR": i["prev_hr"], "compact": i["compact"], "uncles": i["uncles"], "ms": i["ms"],
                    "panic": b(pan), "o": ZERO_EPOCH if pan else epoch_lit(o)})
    if k == "reward":
        return rec({"start": i["start"], "len": i["len"], "base": i["base"], "rem": i["rem"], "secondary": i["secondary"],
                    "ns": seq(i["ns"]), "primary": seq(o["primary"]), "secondaryOut": seq(o["secondary"]),
                    "sum1": o["sum1"], "sum2": o["sum2"]})
    if k == "halving":
        return rec({"number": i["number"], "panic": b(pan), "reward": 0 if pan else o["reward"]})
    if k == "c2t":
        return rec({"c": i["c"], "panic": b(pan), "target": 0 if pan else o["target"],
                    "overflow": b((not pan) and o["overflow"]), "difficulty": 0 if pan else o["difficulty"]})
    if k == "t2c":
        return rec({"t": i["t"], "panic": b(pan), "c": 0 if pan else o["c"]})
    if k == "d2c":
        return rec({"d": i["d"], "panic": b(pan), "c": 0 if pan else o["c"]})
    if k == "pow":
        return rec({"hash": i["hash"], "c": i["c"], "accept": b(o["accept"])})
    if k == "field":
        bk = o["back"]
        return rec({"number": i["number"], "index": i["index"], "length": i["length"], "full": o["full"], "wf": b(o["wf"]),
                    "bnumber": bk["number"], "bindex": bk["index"], "blength": bk["length"]})
    if k == "succ":
        p, s = i["p"], i["s"]
        return rec({"pnumber": p["number"], "pindex": p["index"], "plength": p["length"], "snumber": s["number"],
                    "sindex": s["index"], "slength": s["length"], "succ": b(o["succ"])})
    raise V.ToolError("unknown record kind %r" % k)


def const_init(p, groups):
    """ConstInit: consensus parameters of the batch + its observations as constant sequences."""
    out = ["ConstInit ==",
           "  /\\ MinLen = %s /\\ MaxLen = %s /\\ TargetDur = %s /\\ OrphanNum = %s /\\ OrphanDen = %s" % (
               p["min_len"], p["max_len"], p["target_dur"], p["on"], p["od"]),
           "  /\\ Tau = 2 /\\ MsPerSec = 1000 /\\ InitialPrimary = %s /\\ Secondary = %s /\\ HalvingInterval = %s" % (
               p["initial"], p["secondary"], p["halving"]),
           "  /\\ Base = 256 /\\ MantDigits = 3 /\\ WordDigits = 32 /\\ NumberSpace = 16777216 /\\ IndexSpace = 65536",
           # a table of text constants; Epoch.tla!PowTabOK (part of AllCasesAgree) checks PowTab[k+1] = PowTab[k] * Base
           "  /\\ PowTab = <<%s>>" % ", ".join(str(1 << (8 * k)) for k in range(33)),
           "  /\\ TwoTab = <<%s>>" % ", ".join(str(1 << k) for k in range(66))]
    for k in KINDS:
        rs = groups.get(k, [])
        if rs:
            out.append("  /\\ %s = <<\n     %s\n     >>" % (SEQ[k], ",\n     ".join(literal(r) for r in rs)))
        else:
            out.append("  /\\ %s = <<>>" % SEQ[k])
    return "\n".join(out) + "\n"


def itf_value(v):
    if isinstance(v, dict):
        if "#bigint" in v:
            return int(v["#bigint"])
        if "#set" in v:
            return [itf_value(x) for x in v["#set"]]
        if "#map" in v:
            return {json.dumps(itf_value(k)): itf_value(x) for k, x in v["#map"]}
        if "#tup" in v:
            return [itf_value(x) for x in v["#tup"]]
        return {k: itf_value(x) for k, x in v.items() if not k.startswith("#")}
    if isinstance(v, list):
        return [itf_value(x) for x in v]
    return v


def run_apalache(name, p, groups, timeout):
    """Evaluate Epoch.tla on one batch. Returns the evaluated state (dict var -> value) or raises ToolError."""
    d = V.workdir(PID, "apa_" + name, fresh=True)
    shutil.copy(os.path.join(V.SPEC, "Epoch.tla"), d)
    cinit = const_init(p, groups)
    entry = open(os.path.join(V.SPEC, "apa", "Epoch_A.tla")).read()
    entry = entry.replace("AInit ==", cinit + "\nAInit ==", 1)
    open(os.path.join(d, "Epoch_A.tla"), "w").write(entry)
    cmd = ["timeout", str(timeout), APALACHE, "check", "--length=0", "--cinit=ConstInit", "--init=AInit", "--next=ANext",
           "--inv=AllCasesAgree,Census", "--out-dir=" + os.path.join(d, "out"), "--write-intermediate=false",
           "Epoch_A.tla"]
    t0 = time.time()
    rc, out = V.sh(cmd, timeout=timeout + 30, cwd=d, env={"JVM_ARGS": "-Xmx4g"})
    wall = time.time() - t0
    if rc in (124, 137):
        raise V.ToolError("Apalache timed out after %ds on batch %s (not evaluated; not a violation)" % (timeout, name))
    if rc != 12:
        V.log(out[-3000:])
        raise V.ToolError("Apalache rc=%d on batch %s (expected 12: the Census probe)" % (rc, name))
    itfs = []
    for root, _, files in os.walk(os.path.join(d, "out")):
        itfs += [os.path.join(root, f) for f in files if f == "violation1.itf.json"]
    if not itfs:
        V.log(out[-3000:])
        raise V.ToolError("Apalache produced no evaluated state for batch %s" % name)
    st = json.load(open(itfs[0]))["states"][0]
    state = {k: itf_value(v) for k, v in st.items() if not k.startswith("#")}
    shutil.rmtree(os.path.join(d, "out"), ignore_errors=True)
    return state, wall, " ".join(cmd)


def pkey(r):
    return json.dumps(r.get("p", DEFAULT_P), sort_keys=True)


def batches(records, max_next):
    """Group by consensus parameters (they are CONSTANTS of the spec) and split into solver-sized batches:
    Apalache/Z3 needs ~15 s per `next` record (8 divisions by computed 200-bit divisors), ~0.3 s per compact record."""
    by = {}
    for r in records:
        by.setdefault(pkey(r), []).append(r)
    res = []
    for n, (pk, rs) in enumerate(sorted(by.items(), key=lambda kv: -len(kv[1]))):
        p = json.loads(pk)
        nexts = [r for r in rs if r["k"] == "next"]
        for m, i in enumerate(range(0, len(nexts), max_next)):
            res.append(("g%d_next%d" % (n, m), p, {"next": nexts[i:i + max_next]}))
        compact = [r for r in rs if r["k"] in ("c2t", "t2c", "d2c")]
        for m, i in enumerate(range(0, len(compact), 60)):
            g = {}
            for r in compact[i:i + 60]:
                g.setdefault(r["k"], []).append(r)
            res.append(("g%d_compact%d" % (n, m), p, g))
        misc = {}
        for r in rs:
            if r["k"] not in ("next", "c2t", "t2c", "d2c"):
                misc.setdefault(r["k"], []).append(r)
        if misc:
            res.append(("g%d_misc" % n, p, misc))
    return res


def key_of(kind, r, exp):
    i, o = r["in"], r["out"]
    if "panic" in o:
        txt = o["panic"]
        what = "shift-overflow" if "shift right with overflow" in txt else re.sub(r"[^a-z0-9]+", "-", txt.lower())[:40]
        if kind in ("next", "halving"):
            h = (int(i["number"]) + (1 if kind == "next" else 0)) // int(r["p"]["halving"])
            return "%s/panic/%s/%s" % (kind, what, "halvings>=64" if h >= 64 else "halvings<64")
        return "%s/panic/%s" % (kind, what)
    if kind == "next" and exp is not None:
        diff = [f for f, g in (("len", "len"), ("prevHR", "prev_hr"), ("compact", "compact"), ("base", "base"), ("rem", "rem"),
                               ("number", "number"), ("start", "start")) if str(exp[f]) != str(o[g])]
        return "next/mismatch/" + "+".join(diff)
    return "%s/mismatch" % kind


def judge(c, records, tier, tagcount, max_next=4, timeout=900, label=""):
    """Run Apalache on all batches (4 at a time) and turn bad indices into violations."""
    bs = batches(records, max_next)
    results = {}

    def work(bt):
        name, p, g = bt
        try:
            return name, run_apalache(label + name, p, g, timeout)
        except V.ToolError as e:          # the machine is shared: one retry with twice the time before giving up (exit 2)
            if "timed out" not in str(e):
                raise
            V.log("[C07] %s - retrying once" % e)
            return name, run_apalache(label + name, p, g, 2 * timeout)

    with ThreadPoolExecutor(max_workers=2) as ex:     # the machine is shared: few solver processes at a time
        for name, res in ex.map(work, bs):
            results[name] = res
    judged = 0
    for name, p, g in bs:
        state, wall, cmd = results[name]
        c.cov.setdefault("apalache_cmd", cmd)
        c.cov.setdefault("apalache_batches", []).append(
            {"batch": name, "records": {k: len(v) for k, v in g.items()}, "wall_s": round(wall, 1)})
        for k, rs in g.items():
            bad = set(state[BAD[k]])
            skipped = set(state["skipNext"]) if k == "next" else set()
            for n, r in enumerate(rs, start=1):
                if n in skipped:
                    c.add("out_of_domain")
                    continue
                judged += 1
                if k == "next":
                    t = state["tagNext"][json.dumps(n)]
                    for fam in ("len", "hr", "diff"):
                        tagcount[t[fam]] = tagcount.get(t[fam], 0) + 1
                    if r["in"]["prev_hr"] != "0":
                        for side in ("up", "lo"):
                            if -1 <= t[side] <= 1:
                                nm = "hr-estimate-at-%s-bound%+d" % ("upper" if side == "up" else "lower", t[side])
                                tagcount[nm] = tagcount.get(nm, 0) + 1
                    if r.get("tag") in ("len-edge-upper", "len-edge-lower") and t["len"] == "len-free" and "len" in r["out"]:
                        ln = int(r["in"]["len"])
                        bound = min(1800, 2 * ln) if r["tag"] == "len-edge-upper" else max(300, ln // 2)
                        if int(r["out"]["len"]) == bound:
                            nm = "len-computed-equals-%s-bound" % ("upper" if r["tag"] == "len-edge-upper" else "lower")
                            tagcount[nm] = tagcount.get(nm, 0) + 1
                    if t["one"]:
                        tagcount["diff-forced-to-1"] = tagcount.get("diff-forced-to-1", 0) + 1
                    nontrivial = t["len"] != "len-free" or t["hr"] != "hr-inside"
                else:
                    nontrivial = True
                c.case({"k": k, "in": r["in"], "p": r.get("p")}, nontrivial)
                if n in bad:
                    exp = state[EXP[k]][json.dumps(n)] if k in EXP else None
                    c.violation(key_of(k, r, exp),
                                "%s: real code disagrees with Epoch.tla on %s: observed %s, specification %s" % (
                                    k, json.dumps(r["in"]), json.dumps(r["out"]), json.dumps(exp, default=str)),
                                {"kind": "record", "record": r, "spec": exp})
    return judged


def harness_records(n, seed, level):
    rc, out = V.ckbv("c07", ["records", "--seed", seed, "--n", n, "--level", level], timeout=600)
    lines = V.parse_ndjson(out)
    summ = [x["summary"] for x in lines if "summary" in x]
    if rc != 0 or not summ:
        V.log(out[-3000:])
        raise V.ToolError("c07 records failed rc=%d" % rc)
    return [x for x in lines if "k" in x], summ[0]


def model_check(c, tier):
    # vacuity guard: the small configuration with -coverage takes every branch observer
    res = V.tlc(PID, "MC_Epoch", "MC_Epoch_cov.cfg", workers=4, timeout=600)
    if res["violated"]:
        c.violation("model/" + res["violated"], "Epoch.tla violates %s in MC_Epoch_cov.cfg" % res["violated"],
                    {"kind": "model", "cfg": "MC_Epoch_cov.cfg", "tlc_tail": res["out"][-3000:]})
    V.require_coverage(res, OBSERVERS, "MC_Epoch_cov.cfg")
    c.add_tlc(res, "MC_Epoch_cov.cfg (branch coverage)")
    cfgs = ["MC_Epoch_quick.cfg"] if tier == "quick" else ["MC_Epoch_quick.cfg", "MC_Epoch_thorough.cfg"]
    for cfg in cfgs:
        res = V.tlc(PID, "MC_Epoch", cfg, workers=4, timeout=1700, coverage=False, xmx="8g")
        if res["violated"]:
            c.violation("model/" + res["violated"], "Epoch.tla violates %s in %s" % (res["violated"], cfg),
                        {"kind": "model", "cfg": cfg, "tlc_tail": res["out"][-3000:]})
        if res["distinct"] < 1000 or res["queue"] != 0:
            raise V.ToolError("TLC did not exhaust %s: %s distinct, %s on queue" % (cfg, res["distinct"], res["queue"]))
        c.add_tlc(res, cfg)
    c.set("exhaustive", True)


def run(tier):
    c = V.Check(PID, "model_checking", tier)
    c.rule = ("cases = (input, output) records of the real functions judged by the operators of Epoch.tla (Apalache, exact "
              "integers); non-trivial = a next-epoch input that takes a clamp branch (length or hash rate), or any "
              "reward / halving / compact / pow / epoch-field record")
    c.assumptions = [
        "LenInBounds / LenWithinFactor2 are checked on the domain previous length in [min, max] (true after a well-formed genesis epoch)",
        "'within a factor of two' is read with integer rounding: floor(len/2) <= next <= 2*len",
        "at most 2 uncles per block; reward fields of the closing epoch on schedule (base*len+rem = scheduled issuance)",
        "difficulty and previous hash-rate estimate below 2^192: beyond that intermediate products of the rules exceed 256 bits "
        "and the implementation panics by design of its checked U256 arithmetic (inputs sampled there are counted as out_of_domain)",
        "PoW: the Eaglesong hash value is taken from the eaglesong crate; only the comparison against the target is judged; "
        "hash = target exactly is not reachable with a real hash function (nearest hashes of a nonce scan are used)",
        "real-magnitude inputs are boundary-directed and random samples, not an enumeration; exhaustiveness holds for the scaled TLC model only",
    ]
    model_check(c, tier)
    n = 7 if tier == "quick" else 60
    records, summ = harness_records(n, V.seed(), 0 if tier == "quick" else 1)
    tagcount = {}
    judged = judge(c, records, tier, tagcount)
    c.add("traces_validated_against_impl", judged)
    c.set("records_by_kind", {k: sum(1 for r in records if r["k"] == k) for k in KINDS})
    c.set("real_magnitude_branch_census", tagcount)
    rew = [r for r in records if r["k"] == "reward"]
    with_rem = sum(1 for r in rew if int(r["in"]["rem"]) > 0 and int(r["in"]["len"]) > 2)
    with_srem = sum(1 for r in rew if int(r["in"]["secondary"]) % int(r["in"]["len"]) > 0)
    c.set("reward_records_with_remainder", {"primary": with_rem, "secondary": with_srem})
    if with_rem < 2 or with_srem < 2:
        raise V.ToolError("vacuous run: reward records without remainders (%d primary, %d secondary)" % (with_rem, with_srem))
    missing = [t for fam in REAL_TAGS.values() for t in fam if tagcount.get(t, 0) == 0]
    if missing:
        raise V.ToolError("vacuous real-magnitude run: branches never taken by the generated inputs: %s" % missing)
    for k in ("next", "reward", "pow"):
        rs = [r for r in records if r["k"] == k]
        if rs:
            c.sample({k: rs[len(rs) // 2]})
    return c.finish()


def replay(path, tier):
    c = V.Check(PID, "model_checking", tier)
    r = json.load(open(path))
    p = r["payload"]
    if p["kind"] == "model":
        res = V.tlc(PID, "MC_Epoch", p["cfg"], workers=8, coverage=False)
        if res["violated"]:
            c.violation("model/" + res["violated"], "model violation", p)
        return 1 if c.violations else 0
    line = json.dumps(p["record"]) + "\n"
    rc, out = V.ckbv("c07", ["one"], timeout=300, stdin=line.encode())
    recs = [x for x in V.parse_ndjson(out) if "k" in x]
    if rc != 0 or len(recs) != 1:
        V.log(out[-2000:])
        raise V.ToolError("c07 one failed rc=%d" % rc)
    judge(c, recs, tier, {}, label="replay_")
    V.log("replayed record: observed %s" % json.dumps(recs[0]["out"]))
    return 1 if c.violations else 0
