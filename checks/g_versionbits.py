"""Spec growth attached to C03: the soft-fork deployment state machine (spec/Versionbits.tla, RFC 0043 versionbits).

1. TLC, exhaustive: the incremental evaluator with its cache keyed by the period-boundary block (Query at any time, any
   block of any fork, any order, while the tree grows) against the declarative evaluation from genesis:
   StateIsFunctionOfAncestors, Monotone, ThresholdExact, TimeoutExact. Self-test: the counting loop AS CODED
   (Coded = TRUE) must violate them when epoch lengths differ and must satisfy them when all epochs have one length.
2. R (mock indexer): TLC exports every complete tree (two forks, per-epoch lengths, signals, deployment) with the table
   "state of the previous period -> allowed states" per period boundary; `g_versionbits mock` realises each tree as
   real headers / cellbases / EpochExts and asks the REAL Versionbits code for the state of every block of both forks in
   six query orders (each with an empty persistent cache) + a warm second pass; get_state_since_epoch and
   compute_versionbits (the bit a block template would signal) are compared too.
3. R (real node, thorough): `g_versionbits node` - real nodes with tiny epochs and a Testdummy deployment, blocks from
   the node's own template and hand-assembled ones, a second fork and a reorg; the recorded tree is judged by TLC
   (Judge_Versionbits.tla), the states read through the store-backed indexer at several moments (before / after the
   reorg) are compared, and template blocks must signal exactly when their parent is started / locked_in.
"""
import collections
import concurrent.futures as cf
import json
import os
import random

import vcheck as V

PID = "C03"
ST = ["defined", "started", "locked_in", "active", "failed"]
BIT = 1
K_WINDOW = "growth-versionbits/tally-window/epoch-lengths-differ"
K_SINCE = "growth-versionbits/since/started-with-unaligned-start"
Q_ACTIONS = ["Mint", "Query"]
# (cfg, workers) of the exhaustive property runs
PROP_QUICK = []
PROP_THOROUGH = [("MC_Versionbits_q6.cfg", 3), ("MC_Versionbits_q8p3.cfg", 3), ("MC_Versionbits_q5p1.cfg", 3)]
# (cfg, number of exported trees to replay)
EXPORT_QUICK = [("MC_Versionbits_e6.cfg", 120)]
SIMS_QUICK = [("MC_Versionbits_simA.cfg", 45, 70)]
EXPORT_THOROUGH = [("MC_Versionbits_e6.cfg", 1000), ("MC_Versionbits_e7par.cfg", 1000), ("MC_Versionbits_e9c2.cfg", 600),
                   ("MC_Versionbits_e9p3.cfg", 600)]     # MC_Versionbits_e7.cfg (124 k trees, lengths {1,2}) is kept for manual runs
SIMS_THOROUGH = [("MC_Versionbits_simA.cfg", 45, 300), ("MC_Versionbits_simB.cfg", 50, 300), ("MC_Versionbits_simC.cfg", 45, 150)]
# every one of these must have been observed on the real code (vacuity guard of the replay)
NEED = ["defined->defined", "defined->started", "started->started", "started->locked_in", "started->failed",
        "locked_in->active", "active->active", "failed->failed", "threshold: count = needed", "threshold: count = needed-1",
        "timeout: boundary = timeout fails", "fork", "second fork differs in state"]
NEED_THOROUGH = NEED + ["locked_in->locked_in", "min_activation: boundary < minact stays locked_in",
                        "min_activation: boundary >= minact activates", "timeout: boundary < timeout stays started",
                        "rounding slack", "period 1", "period 3", "unaligned start"]


def tlc_run(cfg, workers, tag, **kw):
    return V.tlc(PID, "MC_Versionbits", cfg, workers=workers, timeout=900, xmx="4g", tag="g_" + tag, **kw)


def note_step(stats, T, r, p, s):
    stats["%s->%s" % (p, s)] += 1
    if p == "started" and r["tot"] > 0:
        need = -(-r["tot"] * T["num"] // T["den"])            # ceil
        if r["cnt"] == need:
            stats["threshold: count = needed"] += 1
        if r["cnt"] == need - 1:
            stats["threshold: count = needed-1"] += 1
        if len(r["allowed"][1]) > 1:
            stats["rounding slack"] += 1
        if s == "failed" and T["timeout"] <= r["e"] < T["timeout"] + T["period"]:
            stats["timeout: boundary = timeout fails"] += 1
        if s == "started" and r["e"] < T["timeout"]:
            stats["timeout: boundary < timeout stays started"] += 1
    if p == "locked_in":
        stats["min_activation: boundary >= minact activates" if s == "active" else "min_activation: boundary < minact stays locked_in"] += 1


def judge_obs(c, T, obs, since, where, payload, stats):
    """T: tables exported by TLC for one tree; obs/since: answers of the real code per block id (0 = genesis); a moment
    may cover only the first len(obs)-1 blocks. Returns the per-boundary observed states (None where not judged)."""
    keys = {r["k"]: r for r in T["keys"]}
    nb = len(obs) - 1
    byk = {-1: {obs[0]}}
    for b in range(1, nb + 1):
        byk.setdefault(T["anchor"][b - 1], set()).add(obs[b])
    state_of = {}
    exact = {}                                                   # boundary -> the states up to here are the determined ones
    for k in sorted(byk):
        r = keys[k]
        if len(byk[k]) != 1:
            c.violation("growth-versionbits/blocks-of-one-period-differ", "%s: blocks of the period after block %d got %s" % (where, k, sorted(byk[k])),
                        dict(payload, at=k))
            continue
        s = next(iter(byk[k]))
        if s == "panic":
            c.violation("growth-versionbits/panic", "%s: get_state panicked for the period after block %d" % (where, k), dict(payload, at=k))
            continue
        if r["e"] == 0:
            if s != "defined":
                c.violation("growth-versionbits/genesis-epoch-not-defined", "%s: genesis epoch is %s" % (where, s), dict(payload, at=k))
            state_of[k] = s
            exact[k] = s == "defined"
            continue
        p = state_of.get(r["prev"])
        if p not in ST:
            continue                                             # previous period not judged / unknown (knock-on of a finding)
        if s in r["allowed"][ST.index(p)]:
            note_step(stats, T, r, p, s)
            state_of[k] = s
            exact[k] = exact.get(r["prev"], False) and r["sts"] == [s]
            if p == "started" and r["shift"] != 0:
                stats["tally with shifted window, same answer"] += 1
            continue
        if p == "started" and r["shift"] != 0 and s == r["coded"][1]:
            # the known defect: stop judging this fork here
            c.violation(K_WINDOW, "%s: period after block %d (epoch %d): %d of %d blocks of the previous period signal, threshold %d/%d: "
                        "allowed %s, the code says %s (its tally walks the lengths of epochs E..E-P+1, shifted by %d blocks)"
                        % (where, k, r["e"], r["cnt"], r["tot"], T["num"], T["den"], r["allowed"][1], s, r["shift"]), dict(payload, at=k))
            stats["known: tally window -> %s" % s] += 1
            continue
        c.violation("growth-versionbits/state/%s->%s" % (p, s), "%s: period after block %d (epoch %d): previous period %s, allowed %s, the code says %s"
                    % (where, k, r["e"], p, r["allowed"][ST.index(p)], s), dict(payload, at=k))
    # first epoch of the current state
    if since is not None:
        for b in range(0, nb + 1):
            k = -1 if b == 0 else T["anchor"][b - 1]
            if not exact.get(k) or keys[k]["since"] < 0:
                continue
            want, got = keys[k]["since"], since[b]
            stats["since compared"] += 1
            if got == want:
                continue
            if state_of[k] == "started" and got == T["start"]:
                c.violation(K_SINCE, "%s: block %d is started since epoch %d (the blocks of epochs %d..%d are defined); get_state_since_epoch says %d = start"
                            % (where, b, want, T["start"], want - 1, got), dict(payload, at=b))
                stats["known: since of started = start"] += 1
            else:
                c.violation("growth-versionbits/since/%s" % state_of[k], "%s: block %d: state %s since epoch %d, get_state_since_epoch says %s"
                            % (where, b, state_of[k], want, got), dict(payload, at=b))
    return state_of


def tree_payload(T, extra=None):
    p = {"kind": "growth_versionbits", "tree": {k: T[k] for k in ("period", "start", "timeout", "minact", "num", "den", "glen", "n", "parent", "sig", "ep", "forkAt")},
         "tables": {"anchor": T["anchor"], "keys": T["keys"]}}
    if extra:
        p.update(extra)
    return p


def judge_mock(c, T, o, stats):
    base = None
    for v in o["variants"]:
        where = "tree(mock) order=%s" % v["order"]
        payload = tree_payload(T, {"mode": "mock", "order": v["order"], "observed": v})
        st = judge_obs(c, T, v["states"], v["since"], where, payload, stats)
        stats["queries"] += 2 * len(v["states"])
        if v["warm_diff"]:
            c.violation("growth-versionbits/warm-cache-differs", "%s: second pass over a warm cache answers differently: %s" % (where, v["warm_diff"][:3]), payload)
        if base is None:
            base = v
        elif v["states"] != base["states"]:
            c.violation("growth-versionbits/query-order-changes-answer", "order %s answers %s, order %s answers %s" % (base["order"], base["states"], v["order"], v["states"]), payload)
        for b, s in enumerate(v["states"]):
            want = None if s == "none" else ((1 << BIT) if s in ("started", "locked_in") else 0)
            if s != "panic" and v["vbits"][b] != want:
                c.violation("growth-versionbits/compute_versionbits", "%s: block %d is %s, compute_versionbits says %s" % (where, b, s, v["vbits"][b]), payload)
        if T["forkAt"] > 0 and v is base:
            stats["fork"] += 1
            a1, a2 = T["anchor"][T["forkAt"] - 2], T["anchor"][T["n"] - 1]
            if st.get(a1) and st.get(a2) and st[a1] != st[a2]:
                stats["second fork differs in state"] += 1
    stats["period %d" % T["period"]] += 1
    if (T["start"] + 1) % T["period"] != 0:
        stats["unaligned start"] += 1
    lens = {e[2] for e in T["ep"]} | {T["glen"]}
    stats["epoch lengths vary" if len(lens) > 1 else "epochs of one length"] += 1


def replay_mock(c, trees, stats, jobs=4, tag="m"):
    wd = V.workdir(PID, "growth")
    path = os.path.join(wd, "trees_%s.ndjson" % tag)
    with open(path, "w") as f:
        for t in trees:
            f.write(json.dumps(t) + "\n")
    V.build_harness("g_versionbits")
    n = len(trees)
    per = (n + jobs - 1) // jobs
    parts = [(i * per, min(n, (i + 1) * per)) for i in range(jobs) if i * per < n]
    done = 0
    with cf.ThreadPoolExecutor(max_workers=jobs) as ex:
        futs = [ex.submit(V.ckbv, "g_versionbits", ["mock", "--in", path, "--from", a, "--to", b, "--seed", V.seed()], 1200) for a, b in parts]
        for fu in futs:
            rc, out = fu.result()
            lines = V.parse_ndjson(out)
            if rc != 0 or not any("summary" in x for x in lines):
                V.log(out[-2000:])
                raise V.ToolError("g_versionbits mock failed rc=%d" % rc)
            for o in lines:
                if "tree" in o:
                    judge_mock(c, trees[o["tree"]], o, stats)
                    done += 1
    if done != n:
        raise V.ToolError("g_versionbits mock answered %d of %d trees" % (done, n))
    return n


def export_trees(cfg, rnd, want, info, simulate=None, depth=None, seed_=None):
    res = tlc_run(cfg, 4 if not simulate else 1, cfg.replace("MC_Versionbits_", "").replace(".cfg", ""), simulate=simulate, depth=depth, seed_=seed_)
    if res["violated"]:
        raise V.ToolError("export run %s reports %s" % (cfg, res["violated"]))
    ts = V.tlc_json_lines(res["out"], "T")
    if len(ts) < min(want, 100):
        V.log(res["out"][-2000:])
        raise V.ToolError("%s exported only %d trees" % (cfg, len(ts)))
    info.append({"cfg": cfg, "distinct": res["distinct"], "generated": res["generated"], "trees_exported": len(ts), "wall_s": res["wall_s"],
                 "simulated": bool(simulate)})
    # bias the sample towards trees that get beyond `started` on some fork and towards forks
    hot = [t for t in ts if t["forkAt"] > 0 and any(set(r["sts"]) & {"locked_in", "active"} for r in t["keys"])]
    rest = [t for t in ts if not (t["forkAt"] > 0 and any(set(r["sts"]) & {"locked_in", "active"} for r in t["keys"]))]
    rnd.shuffle(hot)
    rnd.shuffle(rest)
    k = min(len(hot), want * 2 // 3)
    return hot[:k] + rest[:want - k]


def run_node(c, stats, rounds, adjust_rounds, seed_=None):
    seed_ = V.seed() if seed_ is None else seed_
    rc, out = V.ckbv("g_versionbits", ["node", "--seed", seed_, "--rounds", rounds, "--adjust-rounds", adjust_rounds], 1200)
    lines = V.parse_ndjson(out)
    if rc != 0 or not any("summary" in x for x in lines):
        V.log(out[-3000:])
        raise V.ToolError("g_versionbits node failed rc=%d" % rc)
    recs = [o for o in lines if "tree" in o]
    wd = V.workdir(PID, "growth")
    path = os.path.join(wd, "node_trees.ndjson")
    with open(path, "w") as f:
        for i, o in enumerate(recs):
            f.write(json.dumps(dict(o["tree"], idx=i)) + "\n")
    tables = {}
    for P in sorted({o["tree"]["period"] for o in recs}):
        res = V.tlc(PID, "Judge_Versionbits", "Judge_Versionbits_p%d.cfg" % P, workers=1, env={"TREES": path}, timeout=600, coverage=False,
                    xmx="3g", xss="256m", tag="g_judge%d" % P)
        if res["violated"]:
            V.log(res["out"][-3000:])
            raise V.ToolError("the recorded tree is not a well-formed epoch tree (%s)" % res["violated"])
        for j in V.tlc_json_lines(res["out"], "J"):
            tables[j["idx"]] = j
    if len(tables) != len(recs):
        raise V.ToolError("judge answered %d of %d recorded trees" % (len(tables), len(recs)))
    nstats = collections.Counter()
    for i, o in enumerate(recs):
        T = dict(o["tree"], anchor=tables[i]["anchor"], keys=tables[i]["keys"])
        final = None
        for m in o["moments"]:
            where = "real node round %d (%s, %d blocks)" % (o["round"], m["at"], m["n"])
            payload = tree_payload(T, {"mode": "node", "seed": seed_, "rounds": [rounds, adjust_rounds], "round": o["round"], "adjust": o["adjust"],
                                       "moment": m["at"], "observed": m})
            final = judge_obs(c, T, m["states"], m["since"], where, payload, stats)
            nstats["moments"] += 1
            nstats["answers"] += len(m["states"])
            nstats[m["at"]] += 1
        # the node's own block template signals exactly while its parent is started / locked_in
        last = o["moments"][-1]["states"]
        for b in o["tmpl"]:
            ps = last[T["parent"][b - 1]]
            want = ps in ("started", "locked_in")
            nstats["template blocks"] += 1
            nstats["template blocks signalling"] += int(T["sig"][b - 1])
            if T["sig"][b - 1] != want:
                c.violation("growth-versionbits/template-signal", "real node round %d: template block %d on a %s parent %s the bit"
                            % (o["round"], b, ps, "signals" if T["sig"][b - 1] else "does not signal"), tree_payload(T, {"mode": "node", "seed": seed_, "rounds": [rounds, adjust_rounds], "round": o["round"], "block": b}))
        nstats["reorgs"] += int(o["reorged"])
        nstats["blocks"] += T["n"]
        nstats["rounds_real_adjustment" if o["adjust"] else "rounds_constant_epochs"] += 1
        lens = {e[2] for e in T["ep"]}
        if o["adjust"] and len(lens) < 2:
            raise V.ToolError("real-adjustment round without varying epoch lengths")
    if nstats["reorgs"] == 0 or nstats["template blocks signalling"] == 0 or nstats["template blocks"] == nstats["template blocks signalling"]:
        raise V.ToolError("vacuous real-node rounds: %s" % dict(nstats))
    return dict(nstats)


def run(c, tier):
    quick = tier == "quick"
    rnd = random.Random(V.seed())
    stats = collections.Counter()
    info = []
    g = {"spec": "Versionbits.tla", "tlc_runs": info}
    # 1. properties of the incremental evaluator, exhaustive; oracle self-tests
    res = tlc_run("MC_Versionbits_coded.cfg", 2, "coded")
    if not res["violated"]:
        raise V.ToolError("oracle self-test failed: the counting loop as coded must violate the properties when epoch lengths differ")
    g["selftest_coded_rejected_by"] = res["violated"]
    states = transitions = 0
    # the exhaustive property runs go on in the background (two at a time) while trees are exported and replayed
    pool = cf.ThreadPoolExecutor(max_workers=2)
    prop = [(cfg, pool.submit(tlc_run, cfg, w, cfg.replace("MC_Versionbits_", "").replace(".cfg", "")))
            for cfg, w in (PROP_QUICK if quick else PROP_THOROUGH + [("MC_Versionbits_codedconst.cfg", 3)])]

    def collect_prop():
        nonlocal states, transitions
        for cfg, fu in prop:
            res = fu.result()
            collect_one(cfg, res)

    def collect_one(cfg, res):
        nonlocal states, transitions
        if res["violated"]:
            c.violation("growth-versionbits/model/" + res["violated"], "Versionbits.tla violates %s in %s" % (res["violated"], cfg),
                        {"kind": "growth_versionbits", "mode": "model", "cfg": cfg, "tlc_tail": res["out"][-3000:]})
            return
        V.require_coverage(res, Q_ACTIONS, cfg)
        info.append({"cfg": cfg, "distinct": res["distinct"], "generated": res["generated"], "wall_s": res["wall_s"]})
        states += res["distinct"]
        transitions += res["generated"]
    # 2. trees + tables from the spec, replayed on the real implementation behind the mock indexer
    trees = []
    for cfg, want in (EXPORT_QUICK if quick else EXPORT_THOROUGH):
        trees += export_trees(cfg, rnd, want, info)
    if True:
        for k, (cfg, depth, num) in enumerate(SIMS_QUICK if quick else SIMS_THOROUGH):
            trees += export_trees(cfg, rnd, num, info, simulate="num=%d" % num, depth=depth, seed_=V.seed() * 10 + k)
    g["trees_replayed"] = replay_mock(c, trees, stats)
    g["orders_per_tree"] = ["asc", "desc", "fork2-first", "fork1-tip-then-fork2", "random", "grow", "+ warm second pass"]
    # 3. real node
    if not quick:
        g["real_node"] = run_node(c, stats, 4, 1)
    collect_prop()
    g["states_exhaustive_with_queries"] = states
    g["transitions_exhaustive_with_queries"] = transitions
    g["observed"] = {k: stats[k] for k in sorted(stats)}
    g["known_findings"] = {k: c.known_hits.get(k, 0) for k in (K_WINDOW, K_SINCE)}
    c.set("growth_versionbits", g)
    if not c.violations:
        missing = [k for k in (NEED if quick else NEED_THOROUGH) if stats[k] == 0]
        if missing:
            raise V.ToolError("vacuous growth_versionbits run: never observed on the real code: %s" % missing)
        if stats["epochs of one length"] == 0 and not quick:
            raise V.ToolError("no tree with epochs of one length (the scenarios that avoid the known tally defect)")
    return g


def replay(c, p):
    """bin/check C03 --replay <file> for a growth_versionbits violation."""
    if p.get("mode") == "model":
        res = tlc_run(p["cfg"], 4, "replay")
        if res["violated"]:
            c.violation("growth-versionbits/model/" + res["violated"], "model violation", p)
        return
    T = dict(p["tree"], anchor=p["tables"]["anchor"], keys=p["tables"]["keys"])
    stats = collections.Counter()
    if p.get("mode") == "mock":
        replay_mock(c, [T], stats, jobs=1, tag="replay")
    else:
        # a real-node round is reproduced from the seed of the run that reported it
        run_node(c, stats, p["rounds"][0], p["rounds"][1], seed_=p["seed"])
