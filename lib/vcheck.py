"""Shared machinery of /verif checks: build the harness against /repo's working tree, run TLC,
run the Rust conformance harness (ckbv), collect evidence, report violations / known findings.

Exit-code contract (bin/check): 0 = property held on everything explored (KNOWN-FINDING lines allowed),
1 = at least one VIOLATION line printed (with a replay file), 2 = tool error / time-out / build failure.
"""
import hashlib
import json
import os
import re
import shutil
import subprocess
import sys
import time

ROOT = os.path.dirname(os.path.dirname(os.path.abspath(__file__)))
# The registered checks always use /verif/harness (path deps on /repo). bin/mutant-run overrides these to judge a
# seeded mutant in an isolated scratch copy without disturbing /repo or concurrently running checks.
HARNESS = os.environ.get("VERIF_HARNESS") or os.path.join(ROOT, "harness")
SPEC = os.path.join(ROOT, "spec")
WORK = os.environ.get("VERIF_WORK") or os.path.join(ROOT, "work")
EVIDENCE = os.environ.get("VERIF_EVIDENCE_DIR") or os.path.join(ROOT, "evidence")
REPLAYS = os.environ.get("VERIF_REPLAYS") or os.path.join(ROOT, "replays")
KNOWN = os.path.join(ROOT, "known-findings.txt")
TLA_CP = "/opt/veriftools/tla/tla2tools.jar:/opt/veriftools/tla/CommunityModules-deps.jar"
BIN_DIR = os.path.join(HARNESS, "target", "debug")


class ToolError(Exception):
    pass


def log(*a):
    print(*a, flush=True)


def seed():
    try:
        return int(os.environ.get("VERIF_SEED", "1"))
    except ValueError:
        return 1


def workdir(pid, sub=None, fresh=False):
    d = os.path.join(WORK, pid) if sub is None else os.path.join(WORK, pid, sub)
    if fresh and os.path.isdir(d):
        shutil.rmtree(d, ignore_errors=True)
    os.makedirs(d, exist_ok=True)
    return d


def sh(cmd, timeout=None, env=None, cwd=None, stdin=None):
    e = dict(os.environ)
    if env:
        e.update({k: str(v) for k, v in env.items()})
    try:
        p = subprocess.run(cmd, shell=isinstance(cmd, str), cwd=cwd, env=e, timeout=timeout,
                           stdout=subprocess.PIPE, stderr=subprocess.STDOUT, input=stdin)
        return p.returncode, p.stdout.decode("utf-8", "replace")
    except subprocess.TimeoutExpired as ex:
        out = (ex.stdout or b"").decode("utf-8", "replace")
        return 124, out + "\n[timeout]"


_built = set()


def build_harness(binname):
    """cargo build of one harness binary against /repo's *current working tree* (path deps)."""
    if binname in _built:
        return
    t0 = time.time()
    lock = os.path.join(HARNESS, "Cargo.lock")
    if not os.path.exists(lock):
        shutil.copy("/repo/Cargo.lock", lock)
    env = {"CARGO_NET_OFFLINE": "true", "CARGO_TERM_COLOR": "never"}
    rc, out = sh(["cargo", "build", "--offline", "--bin", binname], timeout=3600, env=env, cwd=HARNESS)
    if rc != 0:
        log(out[-6000:])
        raise ToolError("harness build failed (rc=%d)" % rc)
    _built.add(binname)
    log("[build] harness binary %s built in %.0fs" % (binname, time.time() - t0))


_tmp_n = 0
_tmp_lock = __import__("threading").Lock()


def _janitor(base, max_age_s=5400):
    """Remove scratch directories left behind by earlier (killed / hand-started) harness processes."""
    now = time.time()
    try:
        for name in os.listdir(base):
            p = os.path.join(base, name)
            try:
                if now - os.path.getmtime(p) > max_age_s:
                    shutil.rmtree(p, ignore_errors=True)
            except OSError:
                pass
    except OSError:
        pass


def ckbv(binname, args, timeout=1800, env=None, stdin=None):
    """Run harness binary `binname` (src/bin/<binname>.rs) with args; returns (rc, combined output)."""
    build_harness(binname)
    base = os.path.join(HARNESS, "target", "tmp")
    os.makedirs(base, exist_ok=True)
    _janitor(base)
    global _tmp_n
    with _tmp_lock:                      # ckbv may be called from several threads of one check
        _tmp_n += 1
        n = _tmp_n
    # one TMPDIR per invocation, removed afterwards: nodes that leave through process::exit / abort never
    # delete their RocksDB directories (75 MB of preallocated WAL each)
    tmp = os.path.join(base, "run-%d-%d" % (os.getpid(), n))
    os.makedirs(tmp, exist_ok=True)
    e = {"TMPDIR": tmp, "RUST_BACKTRACE": "0"}
    if env:
        e.update(env)
    try:
        rc, out = sh([os.path.join(BIN_DIR, binname)] + [str(a) for a in args], timeout=timeout, env=e, cwd=ROOT,
                     stdin=stdin)
    finally:
        shutil.rmtree(tmp, ignore_errors=True)
    return rc, out


COV_RE = re.compile(r"^<(\w+) line \d+, col \d+ to line \d+, col \d+ of module (\w+)(?: \([\d ]+\))?>: (\d+):(\d+)", re.M)
STATES_RE = re.compile(r"(\d+) states generated, (\d+) distinct states found, (\d+) states left on queue")
SIM_RE = re.compile(r"(\d+) states checked")  # simulation mode summary


def tlc(pid, module, cfg=None, workers=8, spec_dir=None, simulate=None, depth=None, env=None, timeout=1800,
        coverage=True, extra=None, xmx="6g", xss=None, deque=False, tag=None, seed_=None):
    """Run TLC on spec/<module>.tla with spec/<cfg>. Returns a dict with counters and raw output.
    A non-zero TLC exit that is not a property violation raises ToolError."""
    spec_dir = spec_dir or SPEC
    tag = tag or (cfg or module).replace("/", "_").replace(".cfg", "")
    meta = workdir(pid, "tlc_" + tag, fresh=True)
    jopts = ["-XX:+UseParallelGC", "-Xmx" + xmx]
    if xss:
        jopts.append("-Xss" + xss)
    if deque:
        jopts.append("-Dtlc2.tool.queue.IStateQueue=StateDeque")
    cmd = ["java"] + jopts + ["-cp", TLA_CP, "tlc2.TLC", "-workers", str(workers), "-metadir", meta,
                              "-cleanup", "-noGenerateSpecTE"]
    if coverage and not simulate:
        cmd += ["-coverage", "1"]
    if cfg:
        cmd += ["-config", cfg]
    if simulate:
        cmd += ["-simulate", simulate]
        if depth:
            cmd += ["-depth", str(depth)]
        cmd += ["-seed", str(seed_ if seed_ is not None else seed())]
    if extra:
        cmd += extra
    cmd.append(module if module.endswith(".tla") else module + ".tla")
    t0 = time.time()
    rc, out = sh(cmd, timeout=timeout, env=env, cwd=spec_dir)
    wall = time.time() - t0
    shutil.rmtree(meta, ignore_errors=True)
    res = {"rc": rc, "out": out, "wall_s": round(wall, 1), "cmd": " ".join(cmd), "generated": 0, "distinct": 0,
           "queue": 0, "violated": None, "coverage": {}}
    m = None
    for m in STATES_RE.finditer(out):
        pass
    if m:
        res["generated"], res["distinct"], res["queue"] = int(m.group(1)), int(m.group(2)), int(m.group(3))
    for cm in COV_RE.finditer(out):
        name = cm.group(1)
        d, g = int(cm.group(3)), int(cm.group(4))
        od, og = res["coverage"].get(name, (0, 0))
        res["coverage"][name] = (max(od, d), max(og, g))
    vm = re.search(r"Error: Invariant (\w+) is violated", out) or re.search(
        r"Error: Action property (\w+) is violated", out) or re.search(r"Error: Temporal properties were violated", out)
    if vm:
        res["violated"] = vm.group(1) if vm.groups() else "temporal"
    if rc == 124:
        raise ToolError("TLC timed out after %ss on %s/%s" % (timeout, module, cfg))
    if rc != 0 and not res["violated"] and "Error: Postcondition" not in out:
        # 12 = safety violation, 13 = liveness; everything else is tool trouble
        if rc not in (12, 13):
            log(out[-4000:])
            raise ToolError("TLC failed rc=%d on %s/%s" % (rc, module, cfg))
    return res


def require_coverage(res, actions, what):
    """Vacuity guard: every named action must have been taken at least once."""
    missing = [a for a in actions if res["coverage"].get(a, (0, 0))[1] == 0]
    if missing:
        raise ToolError("vacuous model run (%s): actions never taken: %s" % (what, missing))


def known_findings():
    """Lines `finding: property=<ID> key=<signature> <text>`; `fixed:` lines suppress nothing."""
    res = {}
    if os.path.exists(KNOWN):
        for line in open(KNOWN):
            line = line.strip()
            m = re.match(r"finding:\s+property=(\S+)\s+key=(\S+)\s*(.*)", line)
            if m:
                res[(m.group(1), m.group(2))] = m.group(3)
    return res


class Check:
    """Accumulates coverage and violations of one property run and writes the evidence file."""

    def __init__(self, pid, level, tier):
        self.pid, self.level, self.tier = pid, level, tier
        self.t0 = time.time()
        self.cov = {"samples": []}
        self.assumptions = []
        self.violations = []      # (key, text, replay_path)
        self.known_hits = {}      # key -> count
        self.known = known_findings()
        self._hashes = set()
        self._nontrivial = set()
        self.evals = 0
        self.rule = ""

    # ---- coverage bookkeeping -------------------------------------------------------------
    def add(self, key, n=1):
        self.cov[key] = self.cov.get(key, 0) + n

    def set(self, key, v):
        self.cov[key] = v

    def sample(self, s, cap=6):
        if len(self.cov["samples"]) < cap:
            self.cov["samples"].append(s)

    def case(self, canon, nontrivial):
        """Count one evaluated case; `canon` is any hashable/serialisable canonical description."""
        self.evals += 1
        h = hashlib.sha1(json.dumps(canon, sort_keys=True, default=str).encode()).hexdigest()
        self._hashes.add(h)
        if nontrivial:
            self._nontrivial.add(h)

    def add_tlc(self, res, what):
        self.add("states", res["distinct"])
        self.add("transitions", res["generated"])
        runs = self.cov.setdefault("tlc_runs", [])
        runs.append({"what": what, "distinct": res["distinct"], "generated": res["generated"],
                     "wall_s": res["wall_s"], "actions": {k: v[1] for k, v in res["coverage"].items()}})
        self.cov.setdefault("checker_cmd", res["cmd"])

    # ---- verdicts -------------------------------------------------------------------------
    def violation(self, key, text, payload):
        """Report a property violation with signature `key`. Listed signatures become KNOWN-FINDING lines."""
        if (self.pid, key) in self.known:
            if key not in self.known_hits:
                log("KNOWN-FINDING: property=%s %s [%s]" % (self.pid, self.known[(self.pid, key)], key))
            self.known_hits[key] = self.known_hits.get(key, 0) + 1
            return False
        d = os.path.join(REPLAYS, self.pid)
        os.makedirs(d, exist_ok=True)
        n = len(self.violations)
        path = os.path.join(d, "%s-%d-%d.json" % (self.tier, seed(), min(n, 20)))
        if n <= 20:
            with open(path, "w") as f:
                json.dump({"property": self.pid, "key": key, "text": text, "payload": payload}, f, indent=1,
                          default=str)
        self.violations.append((key, text, path))
        if n < 20:
            log("VIOLATION property=%s replay=%s" % (self.pid, path))
            log("  key=%s %s" % (key, text))
        return True

    def finish(self):
        cov = self.cov
        cov["evaluations"] = max(self.evals, cov.get("evaluations", 0))
        cov["distinct_nontrivial"] = len(self._nontrivial)
        cov["distinct_cases"] = len(self._hashes)
        cov["rule"] = self.rule
        cov.setdefault("traces_validated_against_impl", 0)
        if self.known_hits:
            cov["known_findings_hit"] = self.known_hits
        ev = {"property_id": self.pid, "tier": self.tier, "seed": seed(), "level": self.level, "coverage": cov,
              "assumptions": self.assumptions, "wall_s": round(time.time() - self.t0, 1),
              "violations": len(self.violations)}
        os.makedirs(EVIDENCE, exist_ok=True)
        with open(os.path.join(EVIDENCE, self.pid + ".json"), "w") as f:
            json.dump(ev, f, indent=1, default=str)
        log("[%s] %s tier: %d evaluations, %d distinct non-trivial, %d states, %d violations, %.0fs" % (
            self.pid, self.tier, cov["evaluations"], cov["distinct_nontrivial"], cov.get("states", 0),
            len(self.violations), ev["wall_s"]))
        return 1 if self.violations else 0


def parse_ndjson(text, prefix=None):
    out = []
    for line in text.splitlines():
        line = line.strip()
        if prefix:
            if not line.startswith(prefix):
                continue
            line = line[len(prefix):].strip()
        if not line.startswith("{") and not line.startswith("["):
            continue
        try:
            out.append(json.loads(line))
        except ValueError:
            pass
    return out


def tlc_json_lines(out, tag):
    """TLC PrintT(<<tag, ToJson(x)>>) prints `<<"TAG", "json...">>`; recover the json values."""
    res = []
    pat = '<<"%s", "' % tag
    for line in out.splitlines():
        if line.startswith(pat) and line.endswith('">>'):
            s = line[len(pat):-3]
            s = s.replace('\\"', '"').replace("\\\\", "\\")
            try:
                res.append(json.loads(s))
            except ValueError:
                pass
    return res


def validate_trace(pid, module, cfg, trace_path, timeout=900, tag=None, xmx="4g"):
    """Trace validation: TLC on a Trace_* spec reading IOEnv.TRACE; accepted iff the postcondition holds.
    Returns (accepted, res). The trace spec prints <<"TRACE-REJECTED", idx, event>> on rejection."""
    res = tlc(pid, module, cfg, workers=1, env={"TRACE": trace_path}, timeout=timeout, coverage=False,
              xmx=xmx, xss="1g", deque=True, tag=tag or "trace")
    out = res["out"]
    rejected = "TRACE-REJECTED" in out or res["violated"] is not None or res["rc"] != 0
    return (not rejected), res
